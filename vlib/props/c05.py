"""C05 — operations on quantized tensors equal the same operations on dequantized values
   (C06 — reported metadata matches what is held — rides on the same program runs: see c06.py)."""
import json
import os
import sys

sys.path.insert(0, os.path.dirname(os.path.dirname(os.path.abspath(__file__))))
sys.path.insert(0, os.path.join(os.path.dirname(os.path.dirname(os.path.dirname(os.path.abspath(__file__)))), "translators"))
import gen_ops  # noqa: E402
from common import Check, REPO  # noqa: E402

U = {"float32": 2.0**-24, "float16": 2.0**-11, "bfloat16": 2.0**-8}
ETA = {"float32": 2.0**-150, "float16": 2.0**-25, "bfloat16": 2.0**-134}

UNARY = ["mul_1elem", "div_1elem", "cat_neg", "cat_relu", "view_flat", "reshape", "transpose01", "t", "permute_rev", "select0", "index0", "slice", "slice_last", "expand", "unsqueeze", "clone", "detach", "contiguous", "to_cpu",
         "cat_self", "stack_self", "stack3", "split", "chunk", "mul_scalar", "rmul_scalar", "div_scalar", "neg", "relu", "softmax", "copy_into_plain", "sum", "mean", "abs", "gelu",
         "layer_norm", "topk", "log_softmax", "to_dtype"]


def prod(l):
    p = 1
    for x in l:
        p *= x
    return p


def step_for(rng, name, shape, reg):
    """(args, new_shape or None if not applicable); shape is the current register's shape (list) or ('list', elem_shape, n)"""
    r = {"reg": reg}
    n = len(shape)
    if name == "view_flat":
        return [r], [prod(shape)]
    if name in ("mul_1elem", "div_1elem"):
        k = rng.randint(1, 3)
        return [r, {"lit": k}], ([1] * (k - n) + shape if k > n else shape)
    if name in ("cat_neg", "cat_relu"):
        if n < 1:
            return None
        d = rng.randrange(n)
        return [r, {"lit": d}], shape[:d] + [2 * shape[d]] + shape[d + 1 :]
    if name == "reshape":
        tot = prod(shape)
        divs = [d for d in range(1, tot + 1) if tot % d == 0]
        d = rng.choice(divs)
        return [r, {"lit": [d, tot // d]}], [d, tot // d]
    if name == "transpose01":
        return ([r], [shape[1], shape[0]] + shape[2:]) if n >= 2 else None
    if name == "t":
        return ([r], [shape[1], shape[0]]) if n == 2 else None
    if name == "permute_rev":
        return [r], list(reversed(shape))
    if name in ("select0", "index0"):
        return ([r, {"lit": rng.randrange(shape[0])}], shape[1:]) if n >= 2 else None
    if name == "slice":
        if n < 1 or shape[0] < 2:
            return None
        a = rng.randrange(shape[0] - 1)
        b = rng.randrange(a + 1, shape[0] + 1)
        return [r, {"lit": a}, {"lit": b}], [b - a] + shape[1:]
    if name == "slice_last":
        if n < 2 or shape[-1] < 2:
            return None
        a = rng.randrange(shape[-1] - 1)
        b = rng.randrange(a + 1, shape[-1] + 1)
        return [r, {"lit": a}, {"lit": b}], shape[:-1] + [b - a]
    if name == "expand":
        k = rng.randint(2, 3)
        return [r, {"lit": k}], [k] + shape
    if name == "unsqueeze":
        d = rng.randrange(n + 1)
        return [r, {"lit": d}], shape[:d] + [1] + shape[d:]
    if name in ("clone", "detach", "contiguous", "to_cpu", "neg", "relu", "copy_into_plain", "abs", "gelu"):
        return [r], shape
    if name in ("softmax", "log_softmax", "layer_norm"):
        return ([r], shape) if n >= 1 else None
    if name == "to_dtype":
        return [r, {"lit": rng.choice(["float32", "float16", "bfloat16"])}], shape
    if name == "cat_self":
        return ([r], [2 * shape[0]] + shape[1:]) if n >= 1 else None
    if name == "stack_self":
        return [r], [2] + shape
    if name == "stack3":
        return [r], [3] + shape
    if name in ("split", "chunk"):
        if n < 1 or shape[0] < 2:
            return None
        divs = [d for d in range(1, shape[0]) if shape[0] % d == 0]
        d = rng.choice(divs)
        if name == "split":
            return [r, {"lit": d}], ("list", [d] + shape[1:], shape[0] // d)
        return [r, {"lit": shape[0] // d}], ("list", [d] + shape[1:], shape[0] // d)
    if name in ("mul_scalar", "rmul_scalar", "div_scalar"):
        return [r, {"lit": rng.choice([2, 0.5, -3, 1.7, 10])}], shape
    if name == "sum":
        return ([r], shape[:-1]) if n >= 1 else None
    if name == "mean":
        return [r], []
    if name == "topk":
        return ([r], shape[:-1] + [2]) if n >= 1 and shape[-1] >= 2 else None
    return None


def gen_program(rng, seed, tier):
    kind = rng.choice(["qact", "qact", "qact", "qweight8", "qbits", "binary", "where", "mixed"])
    dtype = rng.choice(["float32", "float32", "float16", "bfloat16"])
    rank = rng.randint(1, 4)
    shape = [rng.choice([2, 3, 4, 6]) for _ in range(rank)]
    ops = []
    if kind in ("qact", "mixed"):
        operands = [{"kind": "qact", "qtype": rng.choice(["qint8", "qint8", "qfloat8_e4m3fn", "qfloat8_e5m2"]), "shape": shape, "dtype": dtype, "mag": 10 ** rng.uniform(-2, 2), "tight": rng.random() < 0.25}]
    elif kind == "qweight8":
        shape = [rng.choice([1, 2, 3, 4, 6]), rng.choice([1, 2, 4, 6, 8])]
        operands = [{"kind": "qweight", "qtype": rng.choice(["qint8", "qfloat8_e4m3fn", "qfloat8_e5m2"]), "shape": shape, "dtype": dtype, "axis": rng.choice([0, -1])}]
    elif kind == "qbits":
        shape = [rng.choice([2, 4, 5]), rng.choice([4, 8, 16])]
        operands = [{"kind": "qweight", "qtype": rng.choice(["qint4", "qint2"]), "shape": shape, "dtype": dtype, "axis": 0, "group_size": rng.choice([None, 2, 4])}]
    elif kind == "binary":
        s = rng.choice([None, 0.05])
        qt = rng.choice(["qint8", "qfloat8_e4m3fn"])
        operands = [{"kind": "qact", "qtype": qt, "shape": shape, "dtype": dtype, "scale": s or 0.03}, {"kind": "qact", "qtype": qt, "shape": shape, "dtype": dtype, "scale": s or 0.07}]
        b = rng.choice(["cat2", "stack2", "lt", "add", "div_tensor", "mul_tensor", "cosine"])
        if b == "cosine" and rank < 1:
            b = "add"
        steps = [{"op": b, "args": [{"reg": 0}, {"reg": 1}]}]
        return {"seed": seed, "operands": operands, "steps": steps, "kind": kind}
    else:  # where
        qt = rng.choice(["qint8", "qfloat8_e4m3fn"])
        operands = [{"kind": "bool", "shape": shape}, {"kind": "qact", "qtype": qt, "shape": shape, "dtype": dtype}, {"kind": "plain", "shape": shape, "dtype": dtype},
                    {"kind": "qact", "qtype": qt, "shape": shape, "dtype": dtype}]
        v = rng.choice(["where", "where_other_q", "where_plain_x_q_other"])
        if v == "where":
            steps = [{"op": "where", "args": [{"reg": 0}, {"reg": 1}, {"reg": 2}]}]
        elif v == "where_other_q":
            steps = [{"op": "where_other_q", "args": [{"reg": 0}, {"reg": 1}, {"reg": 3}]}]
        else:
            steps = [{"op": "where_other_q", "args": [{"reg": 0}, {"reg": 2}, {"reg": 3}]}]
        return {"seed": seed, "operands": operands, "steps": steps, "kind": kind}
    cur, curshape = 0, shape
    nreg = len(operands)
    steps = []
    depth = rng.randint(1, 8 if tier == "thorough" else 5)
    tries = 0
    while len(steps) < depth and tries < 40:
        tries += 1
        name = rng.choice(UNARY)
        if isinstance(curshape, tuple):
            # a list register: pick one element
            steps.append({"op": "pick", "args": [{"reg": cur}, {"lit": rng.randrange(curshape[2])}]})
            curshape = curshape[1]
            cur = nreg
            nreg += 1
            continue
        if prod(curshape) > 400:
            break
        st = step_for(rng, name, curshape, cur)
        if st is None:
            continue
        args, newshape = st
        steps.append({"op": name, "args": args})
        cur = nreg
        nreg += 1
        curshape = newshape
    return {"seed": seed, "operands": operands, "steps": steps, "kind": kind}


def scale_shape_ok(meta):
    """scale broadcasts along the declared axis"""
    sh, ss, ax = meta["shape"], meta["scale_shape"], meta["axis"]
    if ax is None:
        return prod(ss) == 1
    if meta["cls"] == "QBitsTensor":
        return True  # grouped layout: checked against data_shape below
    if len(ss) != len(sh):
        return False
    if ax == 0:
        return ss == [sh[0]] + [1] * (len(sh) - 1)
    if ax == -1:
        return ss == [1] * (len(sh) - 1) + [sh[-1]]
    return False


def audit_meta(ck, m, ctx):
    """C06: what a quantized result reports vs what it holds"""
    if m.get("cls") not in ("QBytesTensor", "QBitsTensor", "AWQBitsTensor"):
        return
    rep = dict(ctx, meta=m)
    if "deq_error" in m:
        ck.violation(f"a returned {m['cls']} cannot be dequantized ({m['deq_error'][:60]}): scale shape {m['scale_shape']} vs shape {m['shape']}, axis {m['axis']} (after {ctx.get('op')})", rep)
        return
    if m["shape"] != m["deq_shape"]:
        ck.violation(f"{m['cls']} reports shape {m['shape']} but its dequantized value has shape {m['deq_shape']} (after {ctx.get('op')})", rep)
    if m["dtype"] != m["deq_dtype"] or m["dtype"] != m["scale_dtype"]:
        ck.violation(f"{m['cls']} reports dtype {m['dtype']} but dequantizes to {m['deq_dtype']} / scale dtype {m['scale_dtype']} (after {ctx.get('op')})", rep)
    if m["device"] != m["deq_device"] or m["device"] != m["data_device"]:
        ck.violation("reported device differs from the payload's / dequantized value's device", rep)
    if prod(m["data_shape"]) != prod(m["shape"]):
        ck.violation(f"payload holds {prod(m['data_shape'])} codes for {prod(m['shape'])} elements (after {ctx.get('op')})", rep)
    if m["cls"] == "QBytesTensor" and m["data_shape"] != m["shape"]:
        ck.violation(f"QBytesTensor payload shape {m['data_shape']} differs from the reported shape {m['shape']} (after {ctx.get('op')})", rep)
    if m["data_dtype"] != m["storage"]:
        ck.violation(f"payload dtype {m['data_dtype']} is not the storage type {m['storage']} of {m['qtype']}", rep)
    if m["cls"] == "QBitsTensor" and m.get("zp_dtype") not in (None, "torch.int8"):
        ck.violation(f"QBitsTensor holds a zero-point of dtype {m.get('zp_dtype')} instead of int8 (after {ctx.get('op')}): a move must change only the dtype of the scale", rep)
    if not scale_shape_ok(m):
        ck.violation(f"scale shape {m['scale_shape']} does not broadcast along the declared axis {m['axis']} of shape {m['shape']} (after {ctx.get('op')})", rep)
    fm = m.get("flat_meta", {})
    if fm and json.loads(fm["size"]) != m["shape"]:
        ck.violation("flattened metadata carries a size that differs from the reported shape", rep)


def gen_mover_program(rng):
    """a program of data-movement ops valid for the running shape (10% of the programs end with an inapplicable op)"""
    shape = [rng.choice([1, 2, 3, 4]) for _ in range(rng.randint(1, 3))]
    start = list(shape)
    ops = []
    contiguous = True  # torch.view depends on strides, which the model does not have: it is only drawn on contiguous tensors
    for _ in range(rng.randint(1, 5)):
        n = 1
        for d in shape:
            n *= d
        k = rng.choice(["reshape", "view", "permute", "transpose", "slice0", "select0", "unsqueeze0", "expand"])
        if k == "view" and not contiguous:
            k = "reshape"
        if k in ("permute", "transpose", "expand"):
            contiguous = False
        # (reshape of a non-contiguous tensor may itself return a non-contiguous view: contiguity is never regained)
        if k in ("reshape", "view"):
            divs = [d for d in range(1, n + 1) if n % d == 0]
            a = rng.choice(divs)
            b = rng.choice([d for d in divs if (n // a) % d == 0])
            new = [x for x in (a, b, n // a // b)] if rng.random() < 0.5 else [a, n // a]
            ops.append({"op": k, "shape": new}); shape = new
        elif k == "permute" and len(shape) >= 2:
            perm = list(range(len(shape))); rng.shuffle(perm)
            ops.append({"op": k, "perm": perm}); shape = [shape[i] for i in perm]
        elif k == "transpose" and len(shape) >= 2:
            a, b = rng.randrange(len(shape)), rng.randrange(len(shape))
            ops.append({"op": k, "a": a, "b": b}); shape[a], shape[b] = shape[b], shape[a]
        elif k == "slice0" and shape:
            a = rng.randint(0, shape[0]); b = rng.randint(a, shape[0])
            if a == b:
                continue
            ops.append({"op": k, "start": a, "stop": b}); shape = [b - a] + shape[1:]
        elif k == "select0" and len(shape) >= 2:
            i = rng.randrange(-shape[0], shape[0])
            ops.append({"op": k, "i": i}); shape = shape[1:]
        elif k == "unsqueeze0" and len(shape) <= 3:
            ops.append({"op": k}); shape = [1] + shape
        elif k == "expand" and 1 in shape:
            new = [rng.choice([2, 3]) if d == 1 and rng.random() < 0.7 else d for d in shape]
            ops.append({"op": k, "shape": new}); shape = new
    if rng.random() < 0.1:
        n = 1
        for d in shape:
            n *= d
        ops.append(rng.choice([{"op": "reshape", "shape": [n + 1]}, {"op": "select0", "i": (shape[0] if shape else 0) + 1}, {"op": "expand", "shape": [d + 1 if d > 1 else d for d in shape] + [2]}]))
    return {"shape": start, "ops": ops or [{"op": "unsqueeze0"}]}


def coq_mover(op, rank_hint=None):
    zl = lambda xs: "[" + "; ".join(f"({x})" for x in xs) + "]"  # noqa: E731
    k = op["op"]
    if k in ("reshape", "view"):
        return f"(fun A (_ : A) t => t_reshape {zl(op['shape'])} t)"
    if k == "permute":
        return f"(fun A (d : A) t => t_permute d {zl(op['perm'])} t)"
    if k == "transpose":
        return f"(fun A (d : A) t => t_permute d (swap_perm (zlen (shape t)) ({op['a']}) ({op['b']})) t)"
    if k == "slice0":
        return f"(fun A (_ : A) t => Ok (t_slice0 t (Some ({op['start']})) (Some ({op['stop']}))))"
    if k == "select0":
        return f"(t_select0 ({op['i']}))"
    if k == "unsqueeze0":
        return "t_unsqueeze0"
    if k == "expand":
        return f"(t_expand {zl(op['shape'])})"
    raise ValueError(k)


def mover_correspondence(ck, tier):
    """stage B: the movers of the Coq vocabulary (reshape / permute / slice / select / unsqueeze / expand and their
    compositions) against torch on integer payloads, and the same programs on a real per-tensor QBytesTensor"""
    from common import parse_nat_list

    rng = ck.rng
    n = 240 if tier == "quick" else 3000
    cases = [gen_mover_program(rng) for _ in range(n)]
    res = ck.impl("movers", {"cases": cases}, timeout=1200)
    if isinstance(res, dict):
        ck.violation("mover worker crashed: " + res.get("stderr", "")[-300:], {"stderr": res.get("stderr")})
        return
    rows = []
    for c, r in zip(cases, res):
        for op in c["ops"]:
            ck.count("mover", op["op"])
        ck.count("mover outcome", "err" if r["plain"] == "err" else "ok")
        nel = 1
        for d in c["shape"]:
            nel *= d
        data = [(i % 251) - 125 for i in range(nel)]
        # audit: the quantized tensor's payload after the program is the program applied to the payload
        if isinstance(r["quant"], dict) and r["plain"] != "err":
            if r["quant"]["shape"] != r["plain"]["shape"] or r["quant"]["data"] != r["plain"]["data"] or r["quant"]["size"] != r["plain"]["shape"]:
                ck.violation("a program of data-movement ops on a per-tensor quantized tensor does not hold the moved payload (or reports another size): " + json.dumps(c["ops"])[:160],
                             {"case": c, "plain": r["plain"], "quantized": r["quant"]})
        elif (r["quant"] == "err") != (r["plain"] == "err"):
            ck.violation(f"a program of data-movement ops raises on exactly one of a quantized tensor / its payload ({r.get('quant_exn') or r.get('plain_exn')}): " + json.dumps(c["ops"])[:160], {"case": c, "result": r})
        zl = lambda xs: "[" + "; ".join(f"({x})" for x in xs) + "]"  # noqa: E731
        exp = "None" if r["plain"] == "err" else f"(Some (T {zl(r['plain']['shape'])} {zl(r['plain']['data'])}))"
        rows.append(f"(T {zl(c['shape'])} {zl(data)}, [{'; '.join(coq_mover(op) for op in c['ops'])}], {exp})")
    imports = ("From Coq Require Import List ZArith Bool.\nFrom QV Require Import Lib.Res Lib.Tensor Lib.ND Lib.QTensor Model.QOps Proofs.QOpsMoves.\nImport ListNotations.\nOpen Scope Z_scope.\n"
               "Definition swap_perm (n a b : Z) : list Z := let a := if a <? 0 then a + n else a in let b := if b <? 0 then b + n else b in\n"
               "  map (fun i => if i =? a then b else if i =? b then a else i) (zrange n).\n"
               "Definition chk (c : tensor Z * list mover * option (tensor Z)) : bool :=\n"
               "  let '(t, ops, e) := c in match run ops Z 0 t, e with Ok r, Some x => t_eqb r x | Err _, None => true | _, _ => false end.\n")
    for s0 in range(0, len(rows), 120):
        part = rows[s0:s0 + 120]
        body = "Definition cases : list (tensor Z * list mover * option (tensor Z)) := [\n" + ";\n".join(part) + "].\nEval vm_compute in (failing chk cases).\n"
        ok, out, err = ck.coq_eval(f"movers_{s0}", body, imports)
        bad = parse_nat_list(out) if ok else None
        if bad is None:
            ck.corr_mismatch.append({"file": f"movers_{s0}.v", "error": (err or out).strip()[-300:]})
        else:
            ck.corr_checked += len(part)
            for k in bad:
                ck.corr_mismatch.append({"file": f"movers_{s0}.v", "case": cases[s0 + k], "torch": res[s0 + k]["plain"]})


def sources_audit(ck, tier):
    """C06 for quantized tensors that do not come from an op program: quantization with size-1 axes followed by
    rank-changing ops, freezing, deserialization into unfrozen / frozen targets of the same or another dtype"""
    rng = ck.rng
    weights = []
    shapes = [[1, 8], [8, 1], [1, 1], [4, 6], [1, 4, 6], [6, 1, 2], [1], [5]]
    for i, sh in enumerate(shapes):
        for qt in ("qint8", "qfloat8_e4m3fn", "qint4"):
            for axis in (0, -1):
                if qt == "qint4" and len(sh) < 2:
                    continue
                weights.append({"seed": ck.seed + 17 * i + axis, "shape": sh, "qtype": qt, "axis": axis, "dtype": rng.choice(["float32", "float16", "bfloat16"])})
    reload_ = []
    for k, wq in enumerate(["qint8", "qfloat8_e4m3fn", "qint4", "qint2"]):
        for src_dt, tgt_dt in (("float32", "float32"), ("float16", "float32"), ("float32", "float16"), ("bfloat16", "bfloat16")):
            for tf in (False, True):
                if tier == "quick" and rng.random() < 0.4:
                    continue
                reload_.append({"seed": ck.seed + 300 + k, "in": rng.choice([16, 128]), "weights": wq, "dtype": src_dt, "target_dtype": tgt_dt, "src_frozen": True, "target_frozen": tf, "assign": False})
    res = ck.impl("qsources", {"weights": weights, "reload": reload_}, timeout=1500)
    if isinstance(res, dict):
        ck.violation("sources worker crashed: " + res.get("stderr", "")[-300:], {"stderr": res.get("stderr")})
        return
    for r in res:
        c = r["case"]
        ck.count("source", r["what"].split(" ")[0])
        if "raised" in r:
            # quantization along an axis may legitimately be refused (ValueError); anything else on these valid calls is reported
            if r["what"] in ("quantize_weight",) and r["raised"] == "ValueError":
                continue
            if r["what"].startswith("op "):
                continue  # validity of an op is judged against its float twin by the program runs
            ck.violation(f"{r['what']} raised {r['raised']} ({json.dumps(c)[:120]})", {"case": c, "result": r})
            continue
        m = r["meta"]
        ctx = {"case": c, "op": r["what"], "module": r.get("module")}
        audit_meta(ck, m, ctx)
        if m.get("cls") in ("QBytesTensor", "QBitsTensor") and "ref_shape" in m and "deq_shape" in m and m["deq_shape"] != m["ref_shape"]:
            ck.violation(f"{r['what']} on a quantized weight of shape {c['shape']} (axis {c['axis']}): dequantized result has shape {m['deq_shape']}, the op on the dequantized weight gives {m['ref_shape']}", ctx | {"meta": m})
        if r["what"].startswith("load_state_dict") and m.get("cls") in ("QBytesTensor", "QBitsTensor"):
            if m.get("codes_equal_saved") is False or m.get("scale_equal_saved") is False:
                ck.violation(f"{r['what']} ({c['weights']}, {c['dtype']} -> {c['target_dtype']}): the loaded weight does not hold the saved codes / scales", ctx | {"meta": m})
        ck.case(("source", r["what"], json.dumps(c, sort_keys=True)), nontrivial=True)


def run(pid, tier):
    ck = Check(pid, tier)
    ck.coverage["rule"] = (
        "random programs (depth 1..5 quick / 1..8 thorough) over the intercepted ops and a pass-through list, on per-tensor 8-bit activations of all three qtypes (incl. saturated codes), per-axis 8-bit weights, "
        "packed int2/int4 weights, plain tensors and scalars, ranks 1..4, three dtypes; after EVERY step the result is compared with torch's own op on the dequantized operands (exact / proved slack by op class) "
        "and its metadata with what it holds; non-trivial = step whose result is still quantized or whose op is intercepted; distinct = (op, operand kinds, shapes)"
    )
    ck.ensure_static_build()
    errs = gen_ops.generate(REPO, os.path.join(ck.dyn, "GenOps.v"))
    broken = ck.stage_a(errs, ["GenOps.v"], "TieOps.v", f"{pid}.v", tie_text=gen_ops.tie_text())
    if not any(o[0].startswith("compile:") for o in broken):
        mover_correspondence(ck, tier)
    if pid == "C06":
        sources_audit(ck, tier)
    rng = ck.rng
    nprog = 400 if tier == "quick" else 6000
    progs = [gen_program(rng, ck.seed * 100000 + i, tier) for i in range(nprog)]
    # directed programs for every table entry / branch that random choice may miss
    S = [3, 4]
    act = lambda qt="qint8", **k: dict({"kind": "qact", "qtype": qt, "shape": S, "dtype": "float32"}, **k)  # noqa: E731
    directed = [
        {"operands": [act()], "steps": [{"op": "stack3", "args": [{"reg": 0}]}]},
        {"operands": [{"kind": "qweight", "qtype": "qint8", "shape": [4, 6], "dtype": "float32", "axis": 0}], "steps": [{"op": "cat_neg", "args": [{"reg": 0}, {"lit": 0}]}]},
        {"operands": [{"kind": "qweight", "qtype": "qint8", "shape": [4, 6], "dtype": "float32", "axis": -1}], "steps": [{"op": "cat_relu", "args": [{"reg": 0}, {"lit": 1}]}]},
        {"operands": [{"kind": "qweight", "qtype": "qint8", "shape": [4, 6], "dtype": "float32", "axis": 0}], "steps": [{"op": "cat_neg", "args": [{"reg": 0}, {"lit": 1}]}]},
        {"operands": [{"kind": "qact", "qtype": "qint8", "shape": [6], "dtype": "float32"}], "steps": [{"op": "mul_1elem", "args": [{"reg": 0}, {"lit": 2}]}]},
        {"operands": [{"kind": "qact", "qtype": "qint8", "shape": [6], "dtype": "float32"}], "steps": [{"op": "div_1elem", "args": [{"reg": 0}, {"lit": 3}]}]},
        {"operands": [act()], "steps": [{"op": "neg", "args": [{"reg": 0}]}, {"op": "relu", "args": [{"reg": 1}]}]},
        {"operands": [act(scale=0.05), act(scale=0.05)], "steps": [{"op": "neg", "args": [{"reg": 0}]}, {"op": "neg", "args": [{"reg": 1}]}, {"op": "lt", "args": [{"reg": 2}, {"reg": 3}]}]},
        {"operands": [act()], "steps": [{"op": "mul_scalar", "args": [{"reg": 0}, {"lit": -1.5}]}, {"op": "relu", "args": [{"reg": 1}]}]},
        {"operands": [act(scale=0.05), act(scale=0.05)], "steps": [{"op": "mul_scalar", "args": [{"reg": 0}, {"lit": -1}]}, {"op": "mul_scalar", "args": [{"reg": 1}, {"lit": -1}]}, {"op": "lt", "args": [{"reg": 2}, {"reg": 3}]}]},
        {"operands": [act(dtype="float16")], "steps": [{"op": "softmax", "args": [{"reg": 0}]}]},
        {"operands": [act(dtype="float32")], "steps": [{"op": "softmax", "args": [{"reg": 0}]}]},
        {"operands": [act(dtype="bfloat16")], "steps": [{"op": "softmax", "args": [{"reg": 0}]}]},
        {"operands": [act("qfloat8_e4m3fn", dtype="float32")], "steps": [{"op": "softmax", "args": [{"reg": 0}]}]},
        {"operands": [act("qfloat8_e4m3fn", scale=0.05), act("qfloat8_e4m3fn", scale=0.05)], "steps": [{"op": "lt", "args": [{"reg": 0}, {"reg": 1}]}]},
        {"operands": [act(scale=0.05), act(scale=0.05)], "steps": [{"op": "lt", "args": [{"reg": 0}, {"reg": 1}]}]},
        # comparisons across signed zeros (codes +0 / -0 of the float8 types, 0 of qint8): -0.0 < +0.0 is False
        {"operands": [act("qfloat8_e4m3fn", scale=0.05, zeros=1), act("qfloat8_e4m3fn", scale=0.05, zeros=2)], "steps": [{"op": "lt", "args": [{"reg": 0}, {"reg": 1}]}]},
        {"operands": [act("qfloat8_e5m2", scale=0.05, zeros=2), act("qfloat8_e5m2", scale=0.05, zeros=1)], "steps": [{"op": "lt", "args": [{"reg": 0}, {"reg": 1}]}]},
        {"operands": [act("qfloat8_e4m3fn", scale=0.05, zeros=3), act("qfloat8_e4m3fn", scale=0.05, zeros=4)], "steps": [{"op": "lt", "args": [{"reg": 0}, {"reg": 1}]}]},
        {"operands": [act(scale=0.05, zeros=1), act(scale=0.05, zeros=2)], "steps": [{"op": "lt", "args": [{"reg": 0}, {"reg": 1}]}]},
        {"operands": [act()], "steps": [{"op": "copy_into_plain", "args": [{"reg": 0}]}]},
        # pass-through functions called with the quantized tensor BY KEYWORD
        {"operands": [act()], "steps": [{"op": "topk_kw", "args": [{"reg": 0}]}]},
        {"operands": [act("qfloat8_e4m3fn")], "steps": [{"op": "log_softmax_kw", "args": [{"reg": 0}]}]},
        {"operands": [act(scale=0.05), act(scale=0.07)], "steps": [{"op": "cosine_kw", "args": [{"reg": 0}, {"reg": 1}]}]},
        # softmax of large tensors (>= 1024 elements) with a wide dynamic range: logits scaled by 20, rows far below the tensor maximum, additive masks
        {"operands": [{"kind": "qact", "qtype": "qint8", "shape": [32, 40], "dtype": "float32", "mag": 20.0, "rowshift": 300.0}], "steps": [{"op": "softmax", "args": [{"reg": 0}]}]},
        {"operands": [{"kind": "qact", "qtype": "qint8", "shape": [4, 16, 16], "dtype": "float32", "mag": 30.0, "rowshift": 500.0}], "steps": [{"op": "softmax", "args": [{"reg": 0}]}]},
        {"operands": [{"kind": "qact", "qtype": "qint8", "shape": [40, 40], "dtype": "float32", "mag": 3.0}], "steps": [{"op": "softmax_masked", "args": [{"reg": 0}]}]},
        {"operands": [{"kind": "qact", "qtype": "qint8", "shape": [64, 32], "dtype": "float16", "mag": 8.0, "rowshift": 200.0}], "steps": [{"op": "softmax", "args": [{"reg": 0}]}]},
        # a 0-dim quantized tensor (an element of a 1-D activation) as a multiplicand, on either side and against per-axis / plain operands
        {"operands": [{"kind": "qact", "qtype": "qint8", "shape": [6], "dtype": "float32"}, {"kind": "qact", "qtype": "qint8", "shape": [5], "dtype": "float32"}],
         "steps": [{"op": "index1d", "args": [{"reg": 1}, {"lit": 2}]}, {"op": "mul_tensor", "args": [{"reg": 0}, {"reg": 2}]}]},
        {"operands": [{"kind": "qact", "qtype": "qint8", "shape": [6], "dtype": "float32"}, {"kind": "qact", "qtype": "qfloat8_e4m3fn", "shape": [5], "dtype": "float32"}],
         "steps": [{"op": "index1d", "args": [{"reg": 1}, {"lit": 4}]}, {"op": "mul_tensor", "args": [{"reg": 2}, {"reg": 0}]}]},
        {"operands": [{"kind": "qweight", "qtype": "qint8", "shape": [4, 6], "dtype": "float32", "axis": 0}, {"kind": "qact", "qtype": "qint8", "shape": [5], "dtype": "float32"}],
         "steps": [{"op": "index1d", "args": [{"reg": 1}, {"lit": 0}]}, {"op": "mul_tensor", "args": [{"reg": 0}, {"reg": 2}]}]},
        {"operands": [{"kind": "plain", "shape": [3, 4], "dtype": "float32"}, {"kind": "qact", "qtype": "qint8", "shape": [5], "dtype": "float32"}],
         "steps": [{"op": "index1d", "args": [{"reg": 1}, {"lit": 1}]}, {"op": "mul_tensor", "args": [{"reg": 0}, {"reg": 2}]}]},
        {"operands": [{"kind": "qact", "qtype": "qint8", "shape": [6], "dtype": "float16"}, {"kind": "qact", "qtype": "qint8", "shape": [5], "dtype": "float16"}],
         "steps": [{"op": "index1d", "args": [{"reg": 1}, {"lit": 3}]}, {"op": "div_tensor", "args": [{"reg": 0}, {"reg": 2}]}]},
        # transpose whose two dims name the same dimension (the identity) on per-axis and per-tensor matrices
        {"operands": [{"kind": "qweight", "qtype": "qint8", "shape": [4, 6], "dtype": "float32", "axis": 0}], "steps": [{"op": "transpose_dd", "args": [{"reg": 0}, {"lit": 0}]}]},
        {"operands": [{"kind": "qweight", "qtype": "qint8", "shape": [4, 6], "dtype": "float32", "axis": -1}], "steps": [{"op": "transpose_dd", "args": [{"reg": 0}, {"lit": 1}]}]},
        {"operands": [{"kind": "qweight", "qtype": "qfloat8_e4m3fn", "shape": [5, 5], "dtype": "float32", "axis": 0}], "steps": [{"op": "transpose_dd", "args": [{"reg": 0}, {"lit": -1}]}]},
        {"operands": [act()], "steps": [{"op": "transpose_dd", "args": [{"reg": 0}, {"lit": 1}]}]},
        # copy_ between quantized tensors of the same shape quantized per-tensor / along the first / along the last axis, every pairing,
        # then ops that read the declared axis (transpose, slicing)
        {"operands": [{"kind": "qact", "qtype": "qint8", "shape": [4, 6], "dtype": "float32"}, {"kind": "qact", "qtype": "qint8", "shape": [4, 6], "dtype": "float32"}], "steps": [{"op": "copy_q", "args": [{"reg": 0}, {"reg": 1}]}, {"op": "slice", "args": [{"reg": 2}, {"lit": 1}, {"lit": 3}]}]},
        {"operands": [{"kind": "qact", "qtype": "qint8", "shape": [4, 6], "dtype": "float32"}, {"kind": "qweight", "qtype": "qint8", "shape": [4, 6], "dtype": "float32", "axis": 0}], "steps": [{"op": "copy_q", "args": [{"reg": 0}, {"reg": 1}]}, {"op": "t", "args": [{"reg": 2}]}]},
        {"operands": [{"kind": "qact", "qtype": "qint8", "shape": [4, 6], "dtype": "float32"}, {"kind": "qweight", "qtype": "qint8", "shape": [4, 6], "dtype": "float32", "axis": -1}], "steps": [{"op": "copy_q", "args": [{"reg": 0}, {"reg": 1}]}, {"op": "t", "args": [{"reg": 2}]}]},
        {"operands": [{"kind": "qweight", "qtype": "qint8", "shape": [4, 6], "dtype": "float32", "axis": 0}, {"kind": "qact", "qtype": "qint8", "shape": [4, 6], "dtype": "float32"}], "steps": [{"op": "copy_q", "args": [{"reg": 0}, {"reg": 1}]}, {"op": "slice", "args": [{"reg": 2}, {"lit": 1}, {"lit": 3}]}]},
        {"operands": [{"kind": "qweight", "qtype": "qint8", "shape": [4, 6], "dtype": "float32", "axis": 0}, {"kind": "qweight", "qtype": "qint8", "shape": [4, 6], "dtype": "float32", "axis": 0}], "steps": [{"op": "copy_q", "args": [{"reg": 0}, {"reg": 1}]}, {"op": "slice", "args": [{"reg": 2}, {"lit": 1}, {"lit": 3}]}]},
        {"operands": [{"kind": "qweight", "qtype": "qint8", "shape": [4, 6], "dtype": "float32", "axis": 0}, {"kind": "qweight", "qtype": "qint8", "shape": [4, 6], "dtype": "float32", "axis": -1}], "steps": [{"op": "copy_q", "args": [{"reg": 0}, {"reg": 1}]}, {"op": "t", "args": [{"reg": 2}]}]},
        {"operands": [{"kind": "qweight", "qtype": "qint8", "shape": [4, 6], "dtype": "float32", "axis": -1}, {"kind": "qact", "qtype": "qint8", "shape": [4, 6], "dtype": "float32"}], "steps": [{"op": "copy_q", "args": [{"reg": 0}, {"reg": 1}]}, {"op": "slice", "args": [{"reg": 2}, {"lit": 1}, {"lit": 3}]}]},
        {"operands": [{"kind": "qweight", "qtype": "qint8", "shape": [4, 6], "dtype": "float32", "axis": -1}, {"kind": "qweight", "qtype": "qint8", "shape": [4, 6], "dtype": "float32", "axis": 0}], "steps": [{"op": "copy_q", "args": [{"reg": 0}, {"reg": 1}]}, {"op": "t", "args": [{"reg": 2}]}]},
        {"operands": [{"kind": "qweight", "qtype": "qint8", "shape": [4, 6], "dtype": "float32", "axis": -1}, {"kind": "qweight", "qtype": "qint8", "shape": [4, 6], "dtype": "float32", "axis": -1}], "steps": [{"op": "copy_q", "args": [{"reg": 0}, {"reg": 1}]}, {"op": "slice", "args": [{"reg": 2}, {"lit": 1}, {"lit": 3}]}]},
        {"operands": [{"kind": "qact", "qtype": "qfloat8_e4m3fn", "shape": [4, 6], "dtype": "float32"}, {"kind": "qweight", "qtype": "qfloat8_e4m3fn", "shape": [4, 6], "dtype": "float32", "axis": 0}], "steps": [{"op": "copy_q", "args": [{"reg": 0}, {"reg": 1}]}]},
        # copies own their payload
        {"operands": [act()], "steps": [{"op": "to_dtype", "args": [{"reg": 0}, {"lit": "float16"}]}]},
        # histories with an in-place write after a copy / dtype move: the earlier result must keep its values
        {"operands": [act(scale=0.05), act(scale=0.05)], "steps": [{"op": "to_dtype_then_overwrite", "args": [{"reg": 0}, {"lit": "float16"}, {"reg": 1}]}]},
        {"operands": [act("qfloat8_e4m3fn", scale=0.05), act("qfloat8_e4m3fn", scale=0.05)], "steps": [{"op": "to_dtype_then_overwrite", "args": [{"reg": 0}, {"lit": "bfloat16"}, {"reg": 1}]}]},
        {"operands": [act(scale=0.05), act(scale=0.05)], "steps": [{"op": "clone_then_overwrite", "args": [{"reg": 0}, {"reg": 1}]}]},
        {"operands": [{"kind": "qweight", "qtype": "qint8", "shape": [4, 6], "dtype": "float32", "axis": 0}], "steps": [{"op": "to_dtype", "args": [{"reg": 0}, {"lit": "bfloat16"}]}]},
        {"operands": [act()], "steps": [{"op": "clone", "args": [{"reg": 0}]}]},
        {"operands": [act(tight=True)], "steps": [{"op": "neg", "args": [{"reg": 0}]}]},
        {"operands": [act(), act()], "steps": [{"op": "div_tensor", "args": [{"reg": 0}, {"reg": 1}]}]},
        {"operands": [act()], "steps": [{"op": "split", "args": [{"reg": 0}, {"lit": 1}]}, {"op": "pick", "args": [{"reg": 1}, {"lit": 1}]}]},
        {"operands": [act()], "steps": [{"op": "chunk", "args": [{"reg": 0}, {"lit": 3}]}, {"op": "pick", "args": [{"reg": 1}, {"lit": 0}]}]},
        {"operands": [{"kind": "bool", "shape": S}, {"kind": "plain", "shape": S, "dtype": "float32"}, act()], "steps": [{"op": "where_other_q", "args": [{"reg": 0}, {"reg": 1}, {"reg": 2}]}]},
        {"operands": [{"kind": "qweight", "qtype": "qint4", "shape": [4, 8], "dtype": "float32", "axis": 0}], "steps": [{"op": "to_dtype", "args": [{"reg": 0}, {"lit": "float16"}]}]},
        {"operands": [{"kind": "qweight", "qtype": "qint4", "shape": [4, 8], "dtype": "float32", "axis": 0}], "steps": [{"op": "clone", "args": [{"reg": 0}]}]},
    ]
    for i, d in enumerate(directed):
        d["seed"] = 77 + i
        d["kind"] = "directed"
    progs = directed + progs
    res = []
    B = 150
    for s in range(0, len(progs), B):
        r = ck.impl("qops", {"programs": progs[s : s + B]}, timeout=1800)
        if isinstance(r, dict):
            ck.violation("implementation worker crashed on a batch of op programs: " + r.get("stderr", "")[-300:], {"programs": progs[s : s + B][:3], "stderr": r.get("stderr")})
            res += [None] * len(progs[s : s + B])
        else:
            res += r
    branch_hits = {}
    for p, r in zip(progs, res):
        if r is None or "setup_error" in r:
            if r is not None:
                ck.violation("building the quantized operands raised " + r["setup_error"], {"program": p})
            continue
        dtype = next((o.get("dtype", "float32") for o in p["operands"] if "dtype" in o), "float32")
        for m in r["operands"]:
            if pid == "C06":
                audit_meta(ck, m, {"op": "quantization", "program": p})
        neg_literal_seen = False
        for si, st in enumerate(r["steps"]):
            ctx = {"program": p, "step": si, "op": st["op"]}
            if st["op"] in ("mul_scalar", "rmul_scalar", "div_scalar") and any(isinstance(a, dict) and isinstance(a.get("lit"), (int, float)) and a["lit"] < 0 for a in p["steps"][si]["args"]):
                neg_literal_seen = True
            negscale = neg_literal_seen and any((m or {}).get("scale_min", 0) < 0 for m in (st.get("in_meta") or []))
            ck.count("op", st["op"])
            if not st["float_ok"]:
                ck.count("invalid float step")
                break
            in_q = [m for m in (st.get("in_meta") or []) if m]
            if not st["q_ok"]:
                documented = (st["op"] == "to_dtype" and st["q_exn"] == "ValueError") or (st["op"] == "where" and False)
                if not documented:
                    if pid == "C05":
                        ck.violation(f"{st['op']} raised {st['q_exn']} on quantized operands although the float program is valid", dict(ctx, exception=st.get("q_msg"), tb=st.get("tb")))
                else:
                    ck.count("documented refusal")
                break
            metas = st["meta"]
            quantized_out = any(m.get("cls") in ("QBytesTensor", "QBitsTensor") for m in metas)
            ck.case((st["op"], tuple(m["cls"] for m in in_q), tuple(tuple(m["shape"]) for m in in_q)), nontrivial=quantized_out or bool(in_q),
                    sample={"op": st["op"], "operands": [m["cls"] + str(m["shape"]) for m in in_q], "result": [m.get("cls") for m in metas]} if len(ck.samples) < 5 and quantized_out else None)
            branch_hits[(st["op"], "quantized" if quantized_out else "plain")] = branch_hits.get((st["op"], "quantized" if quantized_out else "plain"), 0) + 1
            if st.get("reused_object_ok") is False:
                ck.violation(f"{st['op']} on a quantized tensor object whose codes were overwritten in place (copy_) differs from the op on a fresh tensor holding the same codes (stale result keyed by object identity)", ctx)
            if pid == "C06":
                for m in metas:
                    audit_meta(ck, m, ctx)
                # moves and copies never alter codes; a dtype move changes only the dtype of the scale
                if st["op"] in ("clone", "detach", "contiguous", "to_cpu", "to_dtype") and quantized_out and in_q:
                    if st["codes"][0] != st["in_codes"][0]:
                        ck.violation(f"{st['op']} altered the codes of the quantized tensor", ctx)
                    if st["op"] == "to_dtype":
                        want = "torch." + next(a["lit"] for a in p["steps"][si]["args"] if isinstance(a, dict) and "lit" in a)
                        m = metas[0]
                        if m["dtype"] != want or m["scale_dtype"] != want or m["data_dtype"] != in_q[0]["data_dtype"]:
                            ck.violation("a dtype move did not change exactly the dtype of the scale", dict(ctx, meta=m))
                if st.get("inputs_unchanged") is False:
                    ck.violation(f"{st['op']} modified the codes of one of its quantized operands", ctx)
                if st.get("aliases_source_payload"):
                    ck.violation(f"{st['op']} returns a quantized tensor that shares the payload storage of its source (a later in-place write to one changes the codes of the other)", ctx)
                continue
            # ---- C05: value comparison by op class
            cmp_ = st.get("cmp", {})

            def chk(c, cls):
                if "list" in c:
                    for cc in c["list"]:
                        chk(cc, cls)
                    return
                if "struct" in c:
                    ck.violation(f"{st['op']}: result structure differs from the float program ({c['struct']})", dict(ctx, cmp=c))
                    return
                if "equal" in c:
                    return
                dt = c.get("dtype") if c.get("dtype") in U else dtype
                u, eta = U[dt], ETA[dt]
                if c.get("dtype_same") is False:
                    ck.violation(f"{st['op']}: result dtype {c.get('dtype')} differs from the dtype of the float program's result", dict(ctx, cmp=c))
                    return
                if not c.get("nan_same", True) or (c.get("ref_finite") and not c.get("finite")):
                    ck.violation(f"{st['op']}: non-finite / NaN pattern differs from the float program", dict(ctx, cmp=c))
                    return
                if cls == "passthrough_or_rescale":
                    if not c["exact"] and c["maxdiff"] > 4 * u * c["refmax"] + 4 * eta:
                        ck.violation(f"{st['op']}: differs from the float result by {c['maxdiff']:.3g} > rounding", dict(ctx, cmp=c))
                elif cls in ("move", "move_list", "passthrough", "copy"):
                    if not c["exact"]:
                        what = f"{st['op']} only moves data (or is passed through) but its result differs from the op on the dequantized values by {c['maxdiff']:.3g}"
                        if negscale and st["op"] in ("lt", "cat_relu"):
                            what += " (an operand carries a negative scale after multiplication/division by a negative scalar)"
                        if st["op"] == "cat_neg" and st.get("min_code") == -128:
                            what += " (a code equals -128: int8 negation wraps)"
                        ck.violation(what, dict(ctx, cmp=c))
                elif cls == "sign":
                    if not c["exact"]:
                        what = f"{st['op']} on int8 codes differs from the op on the dequantized values by {c['maxdiff']:.3g}"
                        if st["op"] == "neg" and st.get("min_code") == -128:
                            what += " (a code equals -128: int8 negation wraps)"
                        if negscale:
                            what += " (an operand carries a negative scale after multiplication/division by a negative scalar)"
                        ck.violation(what, dict(ctx, cmp=c, min_code=st.get("min_code")))
                elif cls in ("rescale", "dtype"):
                    uu = max(u, max(U.values()) if cls == "dtype" else u)
                    # the scale itself is rounded in the result dtype: when it is subnormal (float16 scales below 6.1e-5, e.g. absmax/57344)
                    # its absolute error eta is multiplied by the code (up to qmax)
                    qmax_out = {"qint8": 128.0, "qfloat8_e4m3fn": 448.0, "qfloat8_e5m2": 57344.0, "qfloat8": 448.0}.get(c.get("out_qtype"), 128.0)
                    if c["maxdiff"] > 4 * uu * c["refmax"] + 4 * max(ETA.values()) + 2 * qmax_out * ETA.get(c.get("dtype"), max(ETA.values())):
                        ck.violation(f"{st['op']} rescales but differs from the float result by {c['maxdiff']:.3g} > rounding ({4 * uu * c['refmax']:.3g})", dict(ctx, cmp=c))
                elif cls == "requant":
                    scale = c.get("out_scale_max")
                    if scale is None:
                        if not c["exact"] and c["maxdiff"] > 4 * u * c["refmax"]:
                            ck.violation(f"{st['op']} (float result) differs from the float program by {c['maxdiff']:.3g}", dict(ctx, cmp=c))
                    else:
                        qn = c.get("out_qtype", "qint8")
                        qmax = {"qint8": 127, "qfloat8_e4m3fn": 448, "qfloat8_e5m2": 57344, "qfloat8": 448}[qn]
                        # one step of the output grid: the scale for int8; the float8 spacing at the value's magnitude
                        step = scale if qn == "qint8" else max(c["refmax"] * (2.0**-3 if "e4m3" in qn or qn == "qfloat8" else 2.0**-2), scale * 2.0**-9)
                        if c["refmax"] > qmax * scale * (1 + 4 * u):
                            ck.violation(f"{st['op']} re-quantizes with its input's scale but the result does not fit that scale's range: saturation by {c['maxdiff']:.3g}", dict(ctx, cmp=c))
                        elif c["maxdiff"] > step * (1 + 8 * u) + 4 * u * c["refmax"]:
                            ck.violation(f"{st['op']} re-quantizes but differs from the float result by {c['maxdiff']:.3g} > one step {step:.3g} of the output grid", dict(ctx, cmp=c))

            chk(cmp_, st["class"])
    ck.notes.append("branch hits: " + ", ".join(f"{k[0]}/{k[1]}={v}" for k, v in sorted(branch_hits.items())))
    # every registered table entry must have been exercised
    table = gen_ops.table_ops(REPO)
    exercised = {k[0] for k in branch_hits}
    ck.notes.append("dispatch table entries (aten): " + ", ".join(sorted(table["qbytes"])) + " | functions: " + ", ".join(sorted(table["funcs"])))
    ck.assumptions += [
        "the ops' quantized implementations are MODELLED by hand in coq/Model/QOps.v (class of each table entry and its re-wrap); the tie is the per-function AST snapshot (any edit of an op implementation or of the tables breaks a tie lemma) plus these program runs",
        "contractions (mm / bmm / linear) are compared under C07; here they are only required not to raise and to report consistent metadata",
        "pass-through ops are torch's own kernels applied to dequantized operands: compared for exact equality",
    ]
    ck.finish(f"make -C coq ; coqc GenOps.v TieOps.v {pid}.v (per run, against /repo's current source)", trusted_extra=["translators/gen_ops.py (table / AST snapshot extractor)"], extra_cov={"programs": len(progs)})


if __name__ == "__main__":
    run("C05", sys.argv[1] if len(sys.argv) > 1 else "quick")
