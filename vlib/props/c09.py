"""C09 — freeze() preserves outputs bit-for-bit, is idempotent and compacts storage."""
import os
import sys

sys.path.insert(0, os.path.dirname(os.path.dirname(os.path.abspath(__file__))))
sys.path.insert(0, os.path.join(os.path.dirname(os.path.dirname(os.path.dirname(os.path.abspath(__file__)))), "translators"))
import gen_c04  # noqa: E402
import gen_mod  # noqa: E402
import modties  # noqa: E402
from common import COQ, Check, REPO, parse_nat_list, sh, zlist  # noqa: E402
from modgen import named_specs, random_mlp, random_model  # noqa: E402

IMPORTS = "From Coq Require Import String List ZArith Bool.\nFrom QV Require Import Model.Module.\nImport ListNotations.\nOpen Scope string_scope.\n"
OPC = {"forward": 0, "calibrate": 1, "freeze": 2, "to_cpu": 3, "to_device_obj": 3, "deepcopy": 4, "state_dict_reload": 5, "to_dtype": 6}
BITS = {"qint2": 2, "qint4": 4, "qint8": 8, "qfloat8": 8, "qfloat8_e4m3fn": 8, "qfloat8_e5m2": 8}


def group_size_of(in_features, qtype):
    """QModuleMixin.__init__'s rule (its Coq counterpart auto_group_size is proved in C14)"""
    if qtype not in ("qint2", "qint4"):
        return None
    gs = 128
    if in_features > gs:
        while in_features % gs != 0 and gs > 32:
            gs -= 32
        if in_features % gs == 0:
            return gs
    return None


def main(tier):
    ck = Check("C09", tier)
    ck.coverage["rule"] = (
        "runnable models (MLPs with ReLU / GELU / LayerNorm, conv nets with BatchNorm / GroupNorm, nested in Sequential and user-defined blocks), weights in six qtypes (grouped and per-axis int2/int4), "
        "activations None/qint8/qfloat8, dtypes float32/float16/bfloat16; random histories of 3..9 steps over forward / calibrate / freeze / freeze again / to(cpu) / deepcopy / state_dict reload; "
        "outputs on two fixed probe batches are compared bit for bit around every step, every tensor of the model is hashed before / after freeze and deepcopy; storage is measured on the inner tensors; "
        "non-trivial = history with >= 1 freeze preceded by a calibration (activations) or >= 2 freezes"
    )
    ck.ensure_static_build()
    errs = gen_mod.generate(REPO, os.path.join(ck.dyn, "GenMod.v")) + gen_c04.generate(REPO, os.path.join(ck.dyn, "GenC04.v"))
    ck.stage_a(errs, ["GenMod.v", "GenC04.v"], "TieMod.v", "C09.v", tie_text=modties.tie_text(),
               more_ties=[("TieC04.v", open(os.path.join(COQ, "Tie", "TieC04.v")).read())])
    rng = ck.rng
    ncase = 40 if tier == "quick" else 1500
    wq = ["qint8", "qint4", "qint2", "qfloat8", "qfloat8_e4m3fn", "qfloat8_e5m2", "qint4", "qint2"]
    aq = [None, "qint8", "qfloat8", None, "qint8"]
    steps = ["forward", "calibrate", "freeze", "freeze", "to_cpu", "to_device_obj", "deepcopy", "state_dict_reload", "to_dtype"]
    cases = []
    for i in range(ncase):
        tree, inp = random_model(rng)
        dtype = ["float32", "float16", "bfloat16"][i % 3]
        w = wq[i % 8]
        a = aq[(i // 3) % 5]
        if dtype == "bfloat16" and w == "qint8" and a is None:
            for _, sp in named_specs(tree):
                if sp["t"] == "linear" and sp["in"] % 4 == 0 and sp["in"] % 16 != 0:
                    w = "qint4"  # F14 (C07/C08): that configuration crashes the interpreter
        if dtype != "float32" and a is not None:
            # F28 (C08): a parameterless LayerNorm in a half-precision model cannot run before calibration
            for _, sp in named_specs(tree):
                if sp["t"] == "ln" and not sp["affine"]:
                    sp["affine"], sp["bias"] = True, True
        hist = [rng.choice(steps) for _ in range(rng.randint(3, 9))]
        if "freeze" not in hist:
            hist.insert(rng.randint(0, len(hist)), "freeze")
        if a is not None and rng.random() < 0.8:
            hist.insert(0, "calibrate")
        cases.append({"seed": ck.seed * 1000 + i, "dtype": dtype, "weights": w, "activations": a, "tree": tree, "input": inp, "history": hist, "optimizer": "clip" if rng.random() < 0.3 else None,
                      "qinput": rng.choice([None, "qint8", "qint8", "qfloat8_e4m3fn"])})
    # directed: weight-only 8-bit linears (one or two layers) fed an ALREADY QUANTIZED activation, frozen / reloaded / copied
    for k in range(6 if tier == "quick" else 40):
        tree, inp = random_mlp(rng, nlin=1 + k % 2)
        cases.append({"seed": ck.seed * 1000 + 5000 + k, "dtype": ["float32", "float16", "float32"][k % 3], "weights": ["qint8", "qfloat8_e4m3fn", "qint8", "qfloat8"][k % 4], "activations": None, "tree": tree, "input": inp,
                      "history": [["forward", "freeze", "forward"], ["freeze", "deepcopy", "freeze"], ["freeze", "state_dict_reload", "to_cpu"]][k % 3], "optimizer": None, "qinput": ["qint8", "qfloat8_e4m3fn"][(k // 2) % 2]})
    res = ck.impl("life", {"cases": cases}, timeout=3000)
    if isinstance(res, dict):
        ck.violation("implementation worker crashed: " + res.get("stderr", "")[-300:], {"stderr": res.get("stderr")})
        ck.finish("coqc GenMod.v TieMod.v C09.v")
    coq_cases = []
    for c, r in zip(cases, res):
        cfg = {k: c[k] for k in ("seed", "dtype", "weights", "activations", "history", "input", "tree", "optimizer")}
        if not r["ok"]:
            ck.violation(f"building / quantizing the model raised {r['exn']}: {r.get('msg')}", {"case": cfg, "exception": r})
            continue
        ck.count("dtype", c["dtype"]); ck.count("weights", c["weights"]); ck.count("activations", c["activations"]); ck.count("optimizer", c["optimizer"] or "default")
        specs = dict(named_specs(c["tree"]))
        classes = [r["init_out"]]
        observed = []
        frozen_seen = 0
        aborted = False
        last_out = r["init_out"]
        for k, ev in enumerate(r["log"]):
            op = ev["op"]
            ck.count("step", op)
            ctx = {"case": cfg, "step_index": k, "step": op}
            if "exn" in ev and op == "to_dtype" and ev["exn"] == "ValueError" and "cannot be changed" in ev["msg"]:
                ck.count("documented refusal (dtype change of a packed low-bit tensor)")
                aborted = True
                break
            if "exn" in ev:
                what = f"{op} raised {ev['exn']}: {ev['msg'][:160]}"
                if op == "deepcopy" and frozen_seen:
                    what = f"deepcopy of a frozen model raised {ev['exn']}: {ev['msg'][:120]}"
                ck.violation(what, ctx | {"event": ev})
                aborted = True
                break
            if op == "freeze":
                frozen_seen += 1
                if ev["before"] != ev["after"]:
                    ck.violation(("freeze() changed the model outputs" if frozen_seen == 1 else "freezing again changed the model outputs") + f" (weights {c['weights']}, activations {c['activations']}, {c['dtype']})",
                                 ctx | {"before": ev["before"], "after": ev["after"]})
                sb, sa = ev["snap_before"], ev["snap_after"]
                for key in sb:
                    if key.endswith("<meta>"):
                        continue
                    is_qweight = key.endswith(".weight") and (key[: -len("weight")] + "<meta>") in sb and sb[key[: -len("weight")] + "<meta>"]["weight_qtype"] is not None
                    if is_qweight and "bits" in sb[key]:
                        continue  # the float weight that freeze replaces
                    if sb[key] != sa.get(key):
                        kind = "a quantized weight changed when freezing again" if is_qweight else f"freeze() modified {key.split('.')[-1]} (a tensor that is not a weight being frozen)"
                        ck.violation(kind, ctx | {"tensor": key, "before": sb[key], "after": sa.get(key)})
                if set(sa) != set(sb):
                    ck.violation("freeze() added or removed tensors", ctx | {"added": sorted(set(sa) - set(sb)), "removed": sorted(set(sb) - set(sa))})
                # storage
                for key, v in sa.items():
                    if not key.endswith("<meta>") or v["weight_qtype"] is None:
                        continue
                    wkey = key[: -len("<meta>")] + "weight"
                    w = sa[wkey]
                    sctx = ctx | {"module": key[:-7], "weight": w, "meta": v}
                    if not v["frozen"] or "quantized" not in w:
                        ck.violation("after freeze() a quantized module still holds a float weight", sctx)
                        continue
                    qw = w["quantized"]
                    if qw["qtype"] != v["weight_qtype"] or v["weight_qtype"] != c["weights"]:
                        ck.violation(f"frozen weight is stored as {qw['qtype']}, requested {c['weights']}", sctx)
                    fshape = v["float_weight_shape"]
                    numel = 1
                    for d in fshape:
                        numel *= d
                    out_f = fshape[0]
                    bits = BITS[c["weights"]]
                    gs = group_size_of(numel // out_f, c["weights"])
                    rows = numel // gs if gs is not None else out_f  # grouped weights are stored as (groups, group_size)
                    want_payload = -(-rows * bits // 8) * (numel // rows)
                    want_scales = numel // gs if gs is not None else out_f
                    if qw["payload_bytes"] != want_payload or qw["payload_dtype"] not in ("torch.uint8", "torch.int8", "torch.float8_e4m3fn", "torch.float8_e5m2"):
                        ck.violation(f"frozen {c['weights']} weight of shape {fshape} (group size {gs}) takes {qw['payload_bytes']} payload bytes ({qw['payload_dtype']}), expected ceil({rows}*{bits}/8)*{numel // rows} = {want_payload}", sctx)
                    if qw.get("payload_storage_bytes", want_payload) > want_payload + 64:
                        ck.violation(f"frozen {c['weights']} weight of shape {fshape}: the payload exposes {qw['payload_bytes']} bytes but keeps a storage of {qw['payload_storage_bytes']} bytes alive (a view into a larger buffer: nothing is compacted)", sctx)
                    if qw["scale_numel"] != want_scales or (bits < 8 and qw["zp_numel"] != want_scales):
                        ck.violation(f"frozen {c['weights']} weight of shape {fshape} (group size {gs}) has {qw['scale_numel']} scales / {qw.get('zp_numel')} zero-points, expected {want_scales}", sctx)
                    cur_dtype = ev.get("dtype", c["dtype"])
                    if qw["scale_dtype"] != "torch." + cur_dtype:
                        ck.violation(f"frozen weight scale has dtype {qw['scale_dtype']} in a {cur_dtype} model", sctx)
                    ck.case(("storage", c["weights"], tuple(fshape), gs), nontrivial=True)
            elif op in ("to_cpu", "to_device_obj", "deepcopy", "state_dict_reload"):
                if ev["before"] != ev["after"]:
                    ck.violation(f"{op} changed the outputs of a {'frozen' if frozen_seen else 'not yet frozen'} model", ctx | {"before": ev["before"], "after": ev["after"]})
                if op == "deepcopy" and ev["snap_before"] != ev["snap_after"]:
                    diff = [k2 for k2 in ev["snap_before"] if ev["snap_before"][k2] != ev["snap_after"].get(k2)]
                    ck.violation("deepcopy changed tensors of the model", ctx | {"tensors": diff[:5]})
            out = ev.get("after") or ev.get("out")
            if out is not None:
                last_out = out
                if not any(out == o for o in classes):
                    classes.append(out)
            observed.append((op, bool(frozen_seen), classes.index(last_out)))
        if aborted:
            continue
        ncal_before_freeze = "calibrate" in c["history"][: c["history"].index("freeze")] if "freeze" in c["history"] else False
        ck.case(("history", c["seed"]), nontrivial=(c["activations"] is not None and ncal_before_freeze) or c["history"].count("freeze") >= 2,
                sample={"config": {k: cfg[k] for k in ("dtype", "weights", "activations", "history")}, "output_classes": len(classes)} if len(ck.samples) < 3 else None)
        coq_cases.append((c, cfg, observed))
    # ---- correspondence: the life-cycle model's trace (frozen flag, output class = calibration epoch) vs the observed one
    for s in range(0, len(coq_cases), 200):
        part = coq_cases[s : s + 200]
        rows = []
        for c, cfg, obs in part:
            ops = zlist([OPC[o] for o, _, _ in obs]) + "%Z"
            o = "[" + "; ".join(f"({'true' if f else 'false'}, {k}%nat)" for _, f, k in obs) + "]"
            rows.append(f"({'true' if c['activations'] else 'false'}, {ops}, {o})")
        body = "Definition cases : list (bool * list Z * list (bool * nat)) := [\n" + ";\n".join(rows) + "].\nEval vm_compute in (failing chk_life cases).\n"
        name = f"life_{s}"
        with open(os.path.join(ck.dyn, name + ".v"), "w") as fh:
            fh.write(IMPORTS + body)
        rc, out, err = sh(["coqc", "-Q", COQ, "QV", "-Q", ck.dyn, "QD", name + ".v"], 900, cwd=ck.dyn)
        bad = parse_nat_list(out) if rc == 0 else None
        if bad is None:
            ck.corr_mismatch.append({"file": name + ".v", "error": (err or out).strip()[-300:]})
        else:
            ck.corr_checked += len(part)
            for k in bad:
                c, cfg, obs = part[k]
                ck.corr_mismatch.append({"case": {k2: cfg[k2] for k2 in ("seed", "dtype", "weights", "activations", "history")}, "observed": obs})
    ck.assumptions += [
        "only the cpu device exists in this sandbox: moves are to('cpu') / to(torch.device('cpu'), non_blocking=True); copies are copy.deepcopy; cross-device moves are not exercised",
        "output class of a step = the outputs on two fixed probe batches (bits of payload, scale and dequantized values); a calibration pass with quantized activations is assumed to change them",
        "expected group size follows QModuleMixin.__init__ (proved equal to the modelled rule in C14)",
    ]
    ck.finish("make -C coq ; coqc GenMod.v GenC04.v TieMod.v TieC04.v C09.v life_*.v (per run, against /repo's current source)",
              trusted_extra=["translators/gen_mod.py, translators/gen_c04.py"], extra_cov={"programs": len(cases)})


if __name__ == "__main__":
    main(sys.argv[1] if len(sys.argv) > 1 else "quick")
