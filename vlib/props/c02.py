"""C02 — int2/int4 affine quantization error is at most half a step per group."""
import os
import sys
from fractions import Fraction

sys.path.insert(0, os.path.dirname(os.path.dirname(os.path.abspath(__file__))))
sys.path.insert(0, os.path.join(os.path.dirname(os.path.dirname(os.path.dirname(os.path.abspath(__file__)))), "translators"))
import gen_num  # noqa: E402
import numcorr as N  # noqa: E402
import ties  # noqa: E402
from common import Check, REPO  # noqa: E402


def prod(l):
    p = 1
    for x in l:
        p *= x
    return p


CLASSES = ["noise", "zeros", "constant", "onesided", "negative", "offset", "band", "subnormal", "nearmax", "mixed", "single"]


def gen_values(rng, dtype, n, cls):
    big = {"float16": 6.0e4, "bfloat16": 3.0e38, "float32": 3.0e38}[dtype]
    tiny = {"float16": 6e-8, "bfloat16": 1e-40, "float32": 1e-45}[dtype]
    if cls == "zeros":
        v = [0.0] * n
    elif cls == "constant":
        c = rng.choice([3.0, -2.5, 0.007, 100.0])
        v = [c] * n
    elif cls == "onesided":
        v = [rng.uniform(0.1, 5) for _ in range(n)]
    elif cls == "negative":
        v = [-rng.uniform(10, 11) for _ in range(n)]
    elif cls == "offset":
        c = rng.choice([10.0, -10.0, 100.0])
        v = [c + rng.uniform(0, 1) for _ in range(n)]
    elif cls == "band":
        # a one-sided band [c, c + d] at every ratio c/d between 1 and 20 (both signs): sweeps the zero-point over its whole range
        d = rng.choice([1.0, 0.25, 3.0])
        c = rng.uniform(1, 20) * d * rng.choice([1, -1])
        v = [c + rng.uniform(0, d) * (1 if c > 0 else -1) for _ in range(n)]
        v[0], v[-1] = c, c + d * (1 if c > 0 else -1)
    elif cls == "subnormal":
        v = [rng.uniform(-40, 40) * tiny for _ in range(n)]
    elif cls == "nearmax":
        v = [rng.uniform(-1, 1) * big / 4 for _ in range(n)]
    elif cls == "single":
        v = [0.0] * n
        v[rng.randrange(n)] = rng.uniform(-5, 5)
    elif cls == "mixed":
        v = [rng.uniform(-1, 1) * 10 ** rng.uniform(-3, 1) for _ in range(n)]
    else:
        v = [rng.uniform(-1, 1) for _ in range(n)]
    return [N.encode_nearest(Fraction(x), dtype) for x in v]


def groups_of(shape, axis, gsz):
    """flat positions of each quantization group, in the order of the scale tensor"""
    n = prod(shape)
    out = {}
    if len(shape) == 1:
        # a vector: the reduction dims are empty, i.e. torch reduces over everything (one group),
        # unless it is grouped (only group_size 1 is admissible: one group per element)
        for j in range(n):
            out.setdefault((0,) if gsz is None else (j // gsz,), []).append(j)
        return out
    rows = n // shape[-1]
    for j in range(n):
        if axis == 0:
            w = n // shape[0]
            g = j // w if gsz is None else j // gsz
        else:
            col, rowi = j % shape[-1], j // shape[-1]
            g = col if gsz is None else col * (rows // gsz) + rowi // gsz
        out.setdefault(g, []).append(j)
    out = {(k,): out[k] for k in sorted(out)}
    return out


def main(tier):
    ck = Check("C02", tier)
    ck.coverage["rule"] = (
        "weights assembled group by group from the classes " + ", ".join(CLASSES) + "; qint2/qint4 x float32/float16/bfloat16 x axis 0/-1 x group_size in {None} + divisors x rank 1..4; "
        "audit in exact rational arithmetic: |deq-x| <= step/2 + slack with step <= (hi-lo)/(2^bits-1), [lo,hi] = hull of the group and 0; requantization stability for float32/float16; "
        "non-trivial = group with hi > lo; distinct = (dtype,qtype,shape,axis,group,values)"
    )
    ck.ensure_static_build()
    errs = gen_num.generate(REPO, os.path.join(ck.dyn, "GenNum.v"))
    broken = ck.stage_a(errs, ["GenNum.v"], "TieC02.v", "C02.v", tie_text=ties.tie_text("C02"))
    gen_ok = not any(o[0].startswith("compile:") for o in broken)
    rng = ck.rng
    shapes = [([8], 0), ([4, 6], 0), ([4, 6], -1), ([6, 8], 0), ([8, 6], -1), ([3, 2, 4], 0), ([3, 2, 4], -1), ([2, 3, 2, 2], 0), ([2, 2, 3, 2], -1), ([2, 16], 0), ([16, 2], -1), ([8, 4], -1), ([4, 2], -1), ([6, 3], -1), ([12, 4], -1)]
    ncase = 90 if tier == "quick" else 900
    calls = []
    for i in range(ncase):
        dtype = ["float32", "float16", "bfloat16"][i % 3]
        qt = ["qint4", "qint2"][i % 2]
        shape, axis = shapes[i % len(shapes)]
        if len(shape) == 1:
            per = shape[0]
        else:
            per = prod(shape) // (shape[0] if axis == 0 else shape[-1])
        divs = [g for g in range(1, per + 1) if per % g == 0]
        gs = rng.choice([None] + divs)
        grp = groups_of(shape, axis, gs)
        bits = [0] * prod(shape)
        for g, js in grp.items():
            vals = gen_values(rng, dtype, len(js), rng.choice(CLASSES))
            for j, b in zip(js, vals):
                bits[j] = b
        calls.append({"fn": "quantize_weight", "layout": rng.choice([None, None, None, "transposed", "strided", "offset"]), "dtype": dtype, "shape": shape, "bits": bits, "qtype": qt, "axis": axis, "group_size": gs, "optimizer": None, "requant": dtype != "bfloat16"})
        # a history: between the quantization of this weight and its dequantization, ANOTHER weight with the same element count and
        # the same configuration but a different shape is quantized and dequantized (the two projections of an MLP, ...)
        if len(shape) >= 2 and i % 2 == 0:
            n_ = prod(shape)
            cands = [list(reversed(shape)), [n_ // shape[-1], shape[-1]], [shape[0], n_ // shape[0]], [shape[-1], n_ // shape[-1]], [n_ // shape[0], shape[0]]]
            ok_ = [s_ for s_ in cands if s_ != shape and (gs is None or (n_ // (s_[0] if axis == 0 else s_[-1])) % gs == 0)]
            if ok_:
                calls[-1]["interleave"] = ok_[0]
    # histories: the same Parameter / tensor object quantized, updated in place, quantized again - must equal a fresh tensor of the same values
    hcalls = []
    for i in range(16 if tier == "quick" else 100):
        dtype = ["float32", "float16", "bfloat16"][i % 3]
        shape, axis = rng.choice([([4, 8], 0), ([4, 8], -1), ([3, 2, 4], 0)])
        per = prod(shape) // (shape[0] if axis == 0 else shape[-1])
        bits_ = [N.encode_nearest(Fraction(rng.uniform(-1, 1) * 10.0 ** rng.uniform(-2, 1)), dtype) for _ in range(prod(shape))]
        hcalls.append({"fn": "quantize_weight_history", "dtype": dtype, "shape": shape, "bits": bits_, "qtype": ["qint4", "qint2"][i % 2], "axis": axis, "group_size": rng.choice([None, None] + [g for g in (2, 4) if per % g == 0]),
                       "optimizer": rng.choice([None, "max"]), "update": ["data_mul", "data_shrink", "data_copy", "data_index", "no_grad_mul"][i % 5], "requires_grad": rng.random() < 0.7, "no_grad_calls": rng.random() < 0.5})
    hres = ck.impl("numq", {"calls": hcalls}, timeout=1200)
    if isinstance(hres, dict):
        ck.violation("implementation worker crashed (history stream): " + hres.get("stderr", "")[-300:], {"stderr": hres.get("stderr")})
    else:
        for c, r in zip(hcalls, hres):
            cfg = {k: c[k] for k in ("dtype", "qtype", "shape", "axis", "group_size", "update", "requires_grad", "no_grad_calls", "optimizer")}
            ck.count("stream", "history:" + c["update"])
            if not r["ok"]:
                ck.violation(f"quantize_weight raised {r['exn']} on a Parameter ({c['update']})", {"config": cfg, "exception": r, "bits": c["bits"]})
            elif not r["same"]:
                ck.violation(f"quantize_weight of a Parameter after an in-place update ({c['update']}) differs from quantizing a fresh tensor holding the same values: scale / zero-point depend on the history of the object, not on its values",
                             {"config": cfg, "bits": c["bits"], "observed": r})
            ck.case(("history", c["dtype"], c["qtype"], c["update"], tuple(c["bits"])), nontrivial=True)
    for c_ in calls:
        ck.count("layout", c_.get("layout") or "contiguous")
    res = ck.impl("numq", {"calls": calls}, timeout=2400)
    if isinstance(res, dict):
        ck.violation("implementation worker crashed: " + res.get("stderr", "")[-300:], {"stderr": res.get("stderr")})
        ck.finish("coqc GenNum.v TieC02.v C02.v")
    for c, r in zip(calls, res):
        cfg = {k: c[k] for k in ("dtype", "qtype", "shape", "axis", "group_size")}
        dtype, qt, shape, axis, gs = c["dtype"], c["qtype"], c["shape"], c["axis"], c["group_size"]
        ck.count("dtype", dtype); ck.count("qtype", qt); ck.count("rank", len(shape)); ck.count("group", "none" if gs is None else "sized")
        if len(shape) == 1:
            # 1-d weights: per-axis quantization of a vector is one cell per element or rejected; either outcome is a C14 matter
            if not r["ok"] and r["exn"] != "ValueError":
                ck.violation(f"quantize_weight raised {r['exn']} on a 1-d tensor", {"config": cfg, "exception": r})
            if not r["ok"]:
                continue
        if not r["ok"]:
            ck.violation(f"quantize_weight raised {r['exn']} on a valid int2/int4 configuration", {"config": cfg, "exception": r, "bits": c["bits"]})
            continue
        bitsn = N.QINFO[qt][1]
        L = 2**bitsn - 1
        u, eta = N.u_eta(dtype)
        xs = [N.decode(b, dtype) for b in c["bits"]]
        if r["deq"]["shape"] != shape or r["size"] != shape:
            ck.violation("dequantized tensor does not have the original shape", {"config": cfg, "observed": r["deq"]["shape"]})
            continue
        deq = [N.decode(b, dtype) for b in r["deq"]["data"]]
        if any(not N.is_finite(d) for d in deq):
            ck.violation("finite weights dequantize to a non-finite value (NaN code / zero scale)", {"config": cfg, "bits": c["bits"]})
            continue
        if any(cd < 0 or cd > L for cd in r["codes"]["data"]):
            ck.violation("code outside [0, 2^bits-1]", {"config": cfg, "bits": c["bits"]})
        grp = groups_of(shape, axis, gs)
        if len(grp) != len(r["scale"]["data"]):
            ck.violation(f"{len(r['scale']['data'])} scales for {len(grp)} groups", {"config": cfg})
            continue
        scl = [N.decode(b, dtype) for b in r["scale"]["data"]]
        for gi, (g, js) in enumerate(grp.items()):
            lo = min([xs[j] for j in js] + [Fraction(0)])
            hi = max([xs[j] for j in js] + [Fraction(0)])
            step = (hi - lo) / L
            # the stored int8 zero-point must be the un-wrapped rounding of -lo/scale
            if N.is_finite(scl[gi]) and scl[gi] > 0:
                zq = -lo / scl[gi]
                if abs(r["zp"]["data"][gi] - zq) > 1.5 + float(zq) * 2 * float(u):
                    ck.violation("stored zero-point is not round(-lo/scale): it wrapped around in int8 (zero-point wrap)", {"config": cfg, "group": list(g), "zp": r["zp"]["data"][gi], "exact": float(zq), "bits": c["bits"]})
            ck.case((dtype, qt, tuple(shape), axis, gs, g, tuple(c["bits"][j] for j in js)), nontrivial=hi > lo,
                    sample={"config": cfg, "group": list(g), "lo": float(lo), "hi": float(hi)} if len(ck.samples) < 4 and hi > lo else None)
            # float slack: scale and quotient roundings, amplified by at most 2^bits codes
            amax = max(abs(lo), abs(hi))
            slack = (L + 1) * (2 * u * amax + 2 * u * step) + (L + 2) * eta
            worst_j = max(js, key=lambda j: abs(deq[j] - xs[j]))
            worst = abs(deq[worst_j] - xs[worst_j])
            if worst > step / 2 + slack:
                ck.violation(
                    f"element differs from its source by {float(worst):.6g} > half a step {float(step / 2):.6g} (+ rounding) of its group",
                    {"config": cfg, "group": list(g), "lo": float(lo), "hi": float(hi), "position": worst_j, "x_bits": c["bits"][worst_j], "deq_bits": r["deq"]["data"][worst_j], "bits": c["bits"]},
                )
        if "requant_codes" in r and r["requant_codes"]["data"] != r["codes"]["data"]:
            # stability is only claimed where the scale is not degenerate (non-zero)
            zero_scale = any(N.decode(b, dtype) == 0 for b in r["scale"]["data"])
            if not zero_scale:
                diff = [j for j, (a, b) in enumerate(zip(r["requant_codes"]["data"], r["codes"]["data"])) if a != b]
                ck.violation("requantizing the dequantized tensor with the same scale and zero-point changes codes", {"config": cfg, "positions": diff[:10], "bits": c["bits"]})
        if r.get("input_unchanged") is False:
            ck.violation("quantization modified its float input", {"config": cfg})
    if gen_ok:
        N.run_correspondence(ck, calls, res, shard=40)
    ck.assumptions += [
        "that the optimizer's range is the hull of the group and zero is decided on the implementation by the audit and by correspondence with the generated MaxOptimizer; the exact-arithmetic theorem takes the range as hypothesis",
        "float-level slack of the audit: (2^bits)(2u*max|x| + 2u*step) + (2^bits+1)*eta (rounding of scale, quotient and product)",
    ]
    ck.finish("make -C coq ; coqc GenNum.v TieC02.v C02.v (per run, against /repo's current source)",
              trusted_extra=["Flocq 4.1.0 as IEEE semantics in the correspondence model", "Reals axioms for the exact-arithmetic theorem"],
              extra_cov={"programs": len(calls)})


if __name__ == "__main__":
    main(sys.argv[1] if len(sys.argv) > 1 else "quick")
