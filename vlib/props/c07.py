"""C07 — quantized matmul/linear kernels compute scale-corrected products on every path."""
import os
import sys

sys.path.insert(0, os.path.dirname(os.path.dirname(os.path.abspath(__file__))))
sys.path.insert(0, os.path.join(os.path.dirname(os.path.dirname(os.path.dirname(os.path.abspath(__file__)))), "translators"))
import gen_mm  # noqa: E402
from common import Check, REPO  # noqa: E402

U = {"float32": 2.0**-24, "float16": 2.0**-11, "bfloat16": 2.0**-8}
FMAX = {"float32": 3.4028234e38, "float16": 65504.0, "bfloat16": 3.3895e38}


def run_isolated(ck, cases, depth=0):
    """run a batch; on a crash (segfault) bisect down to the single crashing case"""
    if not cases:
        return []
    r = ck.impl("mm", {"cases": cases}, timeout=900)
    if not (isinstance(r, dict) and r.get("crashed")):
        return r
    if len(cases) == 1:
        return [{"id": cases[0]["id"], "ok": False, "crashed": True, "rc": r.get("rc")}]
    mid = len(cases) // 2
    return run_isolated(ck, cases[:mid], depth + 1) + run_isolated(ck, cases[mid:], depth + 1)


def main(tier):
    ck = Check("C07", tier)
    ck.coverage["rule"] = (
        "linear: rows 1..64 (both sides of the >16 / %8 routing tests), in/out features 1..512 incl. non-multiples of 4/8/16/32, batch ranks 1..3, 3 dtypes x {float, qint8, e4m3, e5m2} activations x "
        "{qint8, e4m3, e5m2, qint4, qint2} weights x bias; mm / bmm with quantized operands; exact-operand sets (small integers: every partial sum representable) for bit equality of all routes; "
        "every batch runs in a sacrificial subprocess (bisection isolates a crashing case); non-trivial = K >= 2 and a quantized operand; distinct = (op, dtype, act, weight qtype, sizes)"
    )
    ck.ensure_static_build()
    errs = gen_mm.generate(REPO, os.path.join(ck.dyn, "GenMM.v"))
    broken = ck.stage_a(errs, ["GenMM.v"], "TieC07.v", "C07.v", tie_text=gen_mm.tie_text())
    rng = ck.rng
    n = 260 if tier == "quick" else 4000
    cases = []
    feats = [1, 2, 3, 4, 7, 8, 12, 16, 20, 31, 32, 33, 48, 64, 100, 128, 256, 512]
    for i in range(n):
        dtype = rng.choice(["float32", "float16", "bfloat16"])
        act = rng.choice(["float", "qint8", "qint8", "qfloat8_e4m3fn", "qfloat8_e5m2"])
        wq = rng.choice(["qint8", "qint8", "qfloat8_e4m3fn", "qfloat8_e5m2", "qint4", "qint2"])
        rows = rng.choice([1, 2, 7, 8, 15, 16, 17, 24, 32, 64])
        lead = rng.choice([[rows], [2, rows], [2, 2, rows], [3, rows]]) if rows <= 17 else [rows]
        if rng.random() < 0.04:
            lead = []  # an input without batch dimensions
        inf, outf = rng.choice(feats), rng.choice(feats[:14])
        c = {"id": i, "seed": ck.seed * 7 + i, "op": "linear", "dtype": dtype, "act": act, "wq": wq, "lead": lead, "in": inf, "out": outf, "bias": rng.random() < 0.5,
             "exact": rng.random() < 0.3 and wq in ("qint8",) and act in ("float", "qint8") and inf <= 64}
        if wq in ("qint4", "qint2"):
            c["group_size"] = None
        if not c["exact"]:
            if len(lead) >= 2 and rng.random() < 0.3:
                c["layout"] = "transposed"
            elif lead and rng.random() < 0.12:
                c["layout"] = "expanded"
            if act == "float" and rng.random() < 0.3:
                c["xmag"] = rng.choice([30.0, 100.0])  # large unscaled sums: accumulation must not overflow the output dtype early
        cases.append(c)
    for i in range(n // 5):
        dtype = rng.choice(["float32", "float16", "bfloat16"])
        op = rng.choice(["mm", "bmm"])
        c = {"id": n + i, "seed": ck.seed * 11 + i, "op": op, "dtype": dtype, "n": rng.choice([1, 8, 16, 24, 32]), "m": rng.choice([1, 7, 8, 16, 64]), "p": rng.choice([1, 8, 24]), "batch": 2,
             "aq": rng.choice(["qint8", "qint8", "qfloat8_e4m3fn"]), "a_q": rng.random() < 0.8, "b_q": rng.random() < 0.8}
        if not (c["a_q"] or c["b_q"]):
            c["a_q"] = True
        if rng.random() < 0.15:
            c["layout"] = "expanded"
        if op == "mm" and rng.random() < 0.35:
            c["a_axis"], c["b_axis"] = rng.choice([None, 0, -1]), rng.choice([None, 0, -1])
        if rng.random() < 0.3:
            c["mag"] = rng.choice([0.05, 0.01, 20.0])  # small / large operand magnitudes: the product of the two scales leaves the float16 normal range
        cases.append(c)
    # directed: float8 x float8 with float16 scales accumulates in float16 (F13); bf16 x int8 with in%16 != 0 (F14)
    cases.append({"id": len(cases), "seed": 1, "op": "linear", "dtype": "float16", "act": "qfloat8_e4m3fn", "wq": "qfloat8_e4m3fn", "lead": [2], "in": 512, "out": 4, "bias": False, "ones": 12.0, "directed": "f16 accumulation"})
    cases.append({"id": len(cases), "seed": 2, "op": "linear", "dtype": "bfloat16", "act": "float", "wq": "qint8", "lead": [2], "in": 20, "out": 4, "bias": False, "directed": "int8pack in%16"})
    cases.append({"id": len(cases), "seed": 3, "op": "linear", "dtype": "bfloat16", "act": "float", "wq": "qint8", "lead": [2], "in": 32, "out": 4, "bias": True})
    # directed: float16 activations of large magnitude x float8 weights (unscaled sums beyond 65504 although the scaled result is representable)
    for k, wq_ in enumerate(["qfloat8_e4m3fn", "qfloat8_e5m2", "qint8"]):
        cases.append({"id": len(cases), "seed": 4 + k, "op": "linear", "dtype": "float16", "act": "float", "wq": wq_, "lead": [3], "in": 256, "out": 8, "bias": False, "xmag": 100.0, "exact": False})
    # directed: transposed (non-contiguous) quantized activations on the integer GEMM route; inputs without batch dimensions
    cases.append({"id": len(cases), "seed": 8, "op": "linear", "dtype": "float32", "act": "qint8", "wq": "qint8", "lead": [3, 5], "in": 16, "out": 8, "bias": True, "layout": "transposed", "exact": False})
    # directed: broadcast (expanded, stride-0) quantized activations on the integer GEMM routes
    cases.append({"id": len(cases), "seed": 11, "op": "linear", "dtype": "float32", "act": "qint8", "wq": "qint8", "lead": [24], "in": 32, "out": 16, "bias": False, "layout": "expanded", "exact": False})
    cases.append({"id": len(cases), "seed": 12, "op": "mm", "dtype": "float32", "n": 24, "m": 32, "p": 16, "batch": 2, "aq": "qint8", "a_q": True, "b_q": True, "layout": "expanded"})
    # directed: per-tensor weights (one scalar scale) incl. wide outputs (> 256 features) on the float fallback routes
    for k, (wq_, act_, outf_) in enumerate([("qint8", "float", 300), ("qfloat8_e4m3fn", "float", 512), ("qint8", "qfloat8_e4m3fn", 260), ("qfloat8_e5m2", "qint8", 33), ("qint8", "qint8", 300)]):
        cases.append({"id": len(cases), "seed": 30 + k, "op": "linear", "dtype": ["float32", "float16", "bfloat16"][k % 3] if act_ != "float" or wq_ != "qint8" else "float32", "act": act_, "wq": wq_, "lead": [3], "in": 32, "out": outf_, "bias": k % 2 == 0,
                      "per_tensor_weight": True, "exact": False})
    # directed: operands of torch.mm quantized per-axis, along the contracted and the non-contracted dimensions, on the integer GEMM sizes
    for k, (aa, ba) in enumerate([(None, 0), (None, -1), (0, None), (-1, None), (0, -1), (-1, 0)]):
        cases.append({"id": len(cases), "seed": 20 + k, "op": "mm", "dtype": "float32", "n": 24, "m": 24 if k % 2 == 0 else 32, "p": 16, "batch": 2, "aq": "qint8", "a_q": True, "b_q": True, "a_axis": aa, "b_axis": ba})
    # directed: float16 operands of small magnitude on the integer GEMM route of torch.mm (rows > 16, every size a multiple of 8)
    cases.append({"id": len(cases), "seed": 13, "op": "mm", "dtype": "float16", "n": 24, "m": 64, "p": 32, "batch": 2, "aq": "qint8", "a_q": True, "b_q": True, "mag": 0.05})
    cases.append({"id": len(cases), "seed": 14, "op": "mm", "dtype": "float16", "n": 64, "m": 256, "p": 128, "batch": 2, "aq": "qint8", "a_q": True, "b_q": True, "mag": 0.02})
    cases.append({"id": len(cases), "seed": 9, "op": "linear", "dtype": "float32", "act": "float", "wq": "qint8", "lead": [], "in": 16, "out": 8, "bias": True, "exact": False})
    cases.append({"id": len(cases), "seed": 10, "op": "linear", "dtype": "float32", "act": "qint8", "wq": "qint8", "lead": [], "in": 16, "out": 8, "bias": False, "exact": False})
    res = []
    B = 40
    for s in range(0, len(cases), B):
        res += run_isolated(ck, cases[s : s + B])
    byid = {r["id"]: r for r in res if r is not None}
    for c in cases:
        r = byid.get(c["id"])
        cfg = {k: v for k, v in c.items() if k not in ("id",)}
        if r is None:
            continue
        ck.count("op", c["op"]); ck.count("dtype", c["dtype"])
        if c["op"] == "linear":
            ck.count("act x weight", f"{c['act']} x {c['wq']}")
        K = c.get("in", c.get("m", 1))
        ck.case((c["op"], c["dtype"], c.get("act"), c.get("wq"), K, c.get("out"), tuple(c.get("lead", []))), nontrivial=K >= 2,
                sample=cfg if len(ck.samples) < 4 and K >= 8 else None)
        if r.get("crashed"):
            ck.violation(f"the interpreter crashed (rc={r.get('rc')}) in F.linear: bfloat16 activations x int8 weights routed to torch._weight_int8pack_mm with in_features={K}", {"case": cfg})
            continue
        if not r["ok"]:
            ck.violation(f"{c['op']} raised {r['exn']}: {r.get('msg')}", {"case": cfg, "exception": r})
            continue
        dtype = c["dtype"]
        u = U[dtype]
        if r["dtype"] != "torch." + dtype:
            ck.violation(f"result dtype {r['dtype']} is not the activation dtype {dtype}", {"case": cfg, "observed": r})

        def judge(st, label):
            if "ref_shape" in st:
                what = f"{label}: result has shape {st['shape']} but the product of the dequantized operands has shape {st['ref_shape']}"
                if not c.get("lead", [0]):
                    what += " (1-D input without batch dimensions)"
                ck.violation(what, {"case": cfg, "observed": st})
                return
            representable = st["refmax"] < FMAX[dtype] * (1 - 2 * u)
            if representable and not st["finite"]:
                what = f"{label}: result is not finite although the reference ({st['refmax']:.6g}) is representable in {dtype}"
                if c["op"] == "linear" and dtype == "bfloat16" and c.get("act") == "float" and c.get("wq") == "qint8" and K % 4 == 0 and K % 16 != 0:
                    what = f"{label}: bfloat16 activations x int8 weights routed to torch._weight_int8pack_mm with in_features={K} (not a multiple of 16): the kernel returns garbage (off by {st['at_diff']:.4g}) when it does not crash"
                if c.get("act") == "qint8" and c.get("wq") == "qint8" and K == 1 and c.get("out", 1) > 1:
                    what = f"{label}: torch._int_mm with in_features=1 and a transposed weight returns garbage (non-finite after scaling)"
                if c.get("act", "").startswith("qfloat8") and c.get("wq", "").startswith("qfloat8") and dtype == "float16":
                    what += " (float8 x float8 accumulates in float16)"
                ck.violation(what, {"case": cfg, "observed": st})
                return
            if not representable:
                return
            # accumulator: float32 when an operand is int8 (or the output is float16, after the repair of F13), else the working dtype
            int_operand = "int" in str(c.get("act")) or "int" in str(c.get("wq")) or c["op"] != "linear"
            acc_u = 2.0**-24 if (int_operand or dtype in ("float16", "float32")) else u
            # (K+2) roundings of the accumulation + 2u for the dequantization rounding of the two operands (the reference
            # multiplies rounded dequantized values, the kernels exact codes) + 3u for scale product, output cast, bias add
            # + the absolute rounding error of a result in the subnormal range of the output dtype (2 x half the smallest subnormal:
            # the output cast and one product / scale step), which the relative terms do not cover
            eta_out = {"float16": 2.0**-25, "bfloat16": 2.0**-134, "float32": 2.0**-150}[dtype]
            bound = ((K + 2) * acc_u + 5 * u) * st["at_absref"] + 2 * eta_out + 1e-30
            if st["at_diff"] > bound:
                what = f"{label}: differs from the product of the dequantized operands by {st['at_diff']:.4g} > accumulation bound {bound:.4g} (K={K}, {dtype})"
                if dtype == "float16" and r.get("act_quantized") and 0 < r.get("scale_prod_min", 1) < 2.0**-14 and c["op"] in ("mm", "bmm"):
                    what = f"{label}: torch.mm / torch.bmm of two quantized float16 tensors forms the product of their scales in float16, which is subnormal ({r['scale_prod_min']:.3g}): result off by {st['at_diff'] / max(st['at_absref'], 1e-30):.3g} relative"
                elif dtype == "float16" and r.get("act_quantized") and 0 < r.get("scale_prod_min", 1) < 2.0**-14:
                    what = f"{label}: the float16 product of the activation and weight scales is subnormal ({r['scale_prod_min']:.3g}): result off by {st['at_diff'] / max(st['at_absref'], 1e-30):.3g} relative"
                if c["op"] == "linear" and dtype == "bfloat16" and c.get("act") == "float" and c.get("wq") == "qint8" and K % 4 == 0 and K % 16 != 0:
                    what = f"{label}: bfloat16 activations x int8 weights routed to torch._weight_int8pack_mm with in_features={K} (not a multiple of 16): the kernel returns garbage (off by {st['at_diff']:.4g}) when it does not crash"
                if c.get("act") == "qint8" and c.get("wq") == "qint8" and K == 1 and c.get("out", 1) > 1:
                    what = f"{label}: torch._int_mm with in_features=1 and a transposed weight returns garbage (off by {st['at_diff']:.4g})"
                ck.violation(what, {"case": cfg, "observed": st, "bound": bound})

        if r.get("reused_input_ok") is False and not (c["op"] == "linear" and dtype == "bfloat16" and c.get("act") == "float" and c.get("wq") == "qint8" and K % 4 == 0 and K % 16 != 0):
            ck.violation("F.linear fed the same activation object again after an in-place update returns something else than for a fresh tensor holding the same values", {"case": cfg})
        f14cfg = c["op"] == "linear" and dtype == "bfloat16" and c.get("act") == "float" and c.get("wq") == "qint8" and K % 4 == 0 and K % 16 != 0
        if r.get("reused_weight_ok") is False and f14cfg:
            # F14: on this configuration two calls on the SAME operands already differ (garbage read past unaligned rows), so the comparison
            # of the reused weight object with a fresh one says nothing about the object's history
            ck.violation(f"linear: bfloat16 activations x int8 weights routed to torch._weight_int8pack_mm with in_features={K} (not a multiple of 16): the kernel returns garbage (a reused and a fresh weight holding the same codes differ) when it does not crash", {"case": cfg})
        elif r.get("reused_weight_ok") is False:
            ck.violation("F.linear with a weight object whose codes and scales were overwritten in place (copy_) differs from the product with a fresh weight holding the same codes (stale copy keyed by object identity)", {"case": cfg})
        if r.get("result_stable") is False:
            if c["op"] == "linear" and dtype == "bfloat16" and c.get("act") == "float" and c.get("wq") == "qint8" and K % 4 == 0 and K % 16 != 0:
                # F14: the int8-pack kernel reads past unaligned rows; when it does not crash its result is garbage that changes from call to call
                ck.violation(f"linear: bfloat16 activations x int8 weights routed to torch._weight_int8pack_mm with in_features={K} (not a multiple of 16): the kernel returns garbage (two calls on the same operands differ) when it does not crash", {"case": cfg})
            else:
                ck.violation("the tensor returned by F.linear was overwritten by a later call with operands of the same shapes", {"case": cfg})
        judge(r, c["op"])
        for name, st in (r.get("routes") or {}).items():
            judge(st, "route " + name)
            if c.get("exact") and not st["bit_equal_to_linear"] and c.get("act") == "qint8" and c.get("wq") == "qint8" and c.get("in") == 1 and c.get("out", 1) > 1:
                ck.violation(f"route {name} vs F.linear on exact operands: torch._int_mm with in_features=1 and a transposed weight returns garbage (F.linear itself is off by {r['maxdiff']:.4g})",
                             {"case": cfg, "route": st, "linear": {k: r[k] for k in ("maxdiff", "refmax")}})
            elif c.get("exact") and not st["bit_equal_to_linear"] and c["op"] == "linear" and dtype == "bfloat16" and c.get("act") == "float" and c.get("wq") == "qint8" and K % 4 == 0 and K % 16 != 0:
                ck.violation(f"route {name} vs F.linear on exact operands: bfloat16 activations x int8 weights routed to torch._weight_int8pack_mm with in_features={K} (not a multiple of 16): the kernel returns garbage when it does not crash",
                             {"case": cfg, "route": st, "linear": {k: r[k] for k in ("maxdiff", "refmax")}})
            elif c.get("exact") and not st["bit_equal_to_linear"]:
                ck.violation(f"route {name} and F.linear disagree on exact operands (every partial sum representable)", {"case": cfg, "route": st, "linear": {k: r[k] for k in ("maxdiff", "refmax")}})
    ck.assumptions += [
        "torch.matmul / torch._int_mm / torch._weight_int8pack_mm are MODELLED as accumulation trees over the K products of the contraction: the exact-arithmetic theorems give their value, C07_accumulation_error (Flocq, any order, with or without FMA) bounds their rounding error by ((1+u)^h - 1)*sum|a||w| + n(1+u)^h*eta, of which the audit's bound (K+2)*u_acc*sum|a||w| + output rounding is the first-order instance; that the kernels are such trees is assumed",
        "CUDA / MPS routes are proved about (decision logic read from the source) but never executed here",
    ]
    ck.finish("make -C coq ; coqc GenMM.v TieC07.v C07.v (per run, against /repo's current source)", trusted_extra=["translators/gen_mm.py (routing-decision reader, AST fingerprints)", "Reals axioms"], extra_cov={"programs": len(cases)})


if __name__ == "__main__":
    main(sys.argv[1] if len(sys.argv) > 1 else "quick")
