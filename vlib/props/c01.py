"""C01 — 8-bit symmetric quantization is a nearest-grid-point projection."""
import os
import sys
from bisect import bisect_left
from fractions import Fraction

sys.path.insert(0, os.path.dirname(os.path.dirname(os.path.abspath(__file__))))
sys.path.insert(0, os.path.join(os.path.dirname(os.path.dirname(os.path.dirname(os.path.abspath(__file__)))), "translators"))
import gen_num  # noqa: E402
import numcorr as N  # noqa: E402
import ties  # noqa: E402
from common import COQ, Check, REPO, parse_nat_list, sh, zlist  # noqa: E402

Q8 = ["qint8", "qfloat8_e4m3fn", "qfloat8_e5m2"]
GRIDS = {q: N.fp8_grid(q) for q in Q8}
MAXF = {"float16": Fraction(65504), "bfloat16": Fraction(2) ** 127 * Fraction(255, 128), "float32": Fraction(2) ** 127 * (2 - Fraction(1, 2**23))}


def nearest_dist(grid, s, x):
    """min over grid values g of |s*g - x| (exact)"""
    y = x / s
    i = bisect_left(grid, y)
    best = None
    for k in (i - 1, i):
        if 0 <= k < len(grid):
            d = abs(s * grid[k] - x)
            best = d if best is None or d < best else best
    return best


def slack(dtype, x, s, deq_exact, more=()):
    u, eta = N.u_eta(dtype)
    for d_ in more:  # mixed dtypes: the coarsest of the formats involved
        u, eta = max(u, N.u_eta(d_)[0]), max(eta, N.u_eta(d_)[1])
    return 2 * (u * abs(x) + s * eta) + u * abs(deq_exact) + eta


def audit_element(ck, dtype, qtype, xb, sb, code, deqb, ctx, sdtype=None, ddtype=None):
    """the statement of C01 for one element; returns True if in the property's domain (sdtype / ddtype: dtype of the scale and of the
    dequantized tensor when they differ from the source's)"""
    sdt, ddt = sdtype or dtype, ddtype or dtype
    x, s, deq = N.decode(xb, dtype), N.decode(sb, sdt), N.decode(deqb, ddt)
    if not N.is_finite(x) or not N.is_finite(s) or s <= 0:
        return False
    grid = GRIDS[qtype]
    if grid[-1] * s > min(MAXF[dtype], MAXF[sdt], MAXF[ddt]):
        return False  # the grid itself is not representable: outside the statement
    rep = dict(ctx, dtype=dtype, scale_dtype=sdt, deq_dtype=ddt, qtype=qtype, x_bits=xb, scale_bits=sb, x=float(x), scale=float(s), code=code, deq_bits=deqb)
    cv = N.code_value(code if code >= 0 else code, qtype) if qtype != "qint8" else Fraction(code)
    if not N.is_finite(cv) or not N.is_finite(deq):
        ck.violation(f"finite input quantizes to a non-finite code/value ({qtype}, {dtype})", rep)
        return True
    if cv < grid[0] or cv > grid[-1]:
        ck.violation(f"code outside the 8-bit grid ({qtype})", rep)
    best = nearest_dist(grid, s, x)
    err = abs(deq - x)
    sl = slack(dtype, x, s, s * cv, more=(sdt, ddt))
    if err > best + sl:
        ck.violation(
            f"dequantized value is not a closest grid point: error {float(err):.6g} > best {float(best):.6g} + slack {float(sl):.3g} ({qtype}, {dtype})",
            dict(rep, err=float(err), best=float(best), slack=float(sl)),
        )
    y = x / s
    if y >= grid[-1] and cv != grid[-1]:
        ck.violation(f"element beyond the grid does not saturate to the upper end point ({qtype}, {dtype})", rep)
    if y <= grid[0] and cv != grid[0]:
        ck.violation(f"element beyond the grid does not saturate to the lower end point ({qtype}, {dtype})", rep)
    return True


def scales_for(ck, dtype, tier):
    """boundary-directed scalar scales as bit patterns"""
    enc = lambda v: N.encode_nearest(Fraction(v), dtype)  # noqa: E731
    base = [enc(Fraction(1, 64)), enc(ck.rng.uniform(0.003, 0.05))]
    if dtype == "float16":
        # a scale that is subnormal in float16 (weights with absmax < 7.7e-3 under absmax/127): every change that special-cases tiny scales shows here
        base.append(enc(Fraction(3, 2) * Fraction(2) ** -20))
    if dtype == "bfloat16":
        # a scale in the subnormal range of bfloat16 / float32 (below 1.18e-38): elements and products are subnormal too;
        # a process left in flush-to-zero mode, or code that special-cases denormals, shows here
        base.append(enc(Fraction(3, 2) * Fraction(2) ** -130))
    if tier == "thorough":
        base += [enc(1), enc(Fraction(2) ** -14), enc(ck.rng.uniform(1e-4, 1e-3)), enc(ck.rng.uniform(0.5, 3.0)), enc(100), enc(Fraction(5, 4) * Fraction(2) ** -22)]
    return base


def main(tier):
    ck = Check("C01", tier)
    ck.coverage["rule"] = (
        "sweeps: ALL 65536 bit patterns of float16 and of bfloat16 x {qint8, e4m3fn, e5m2} x boundary-directed scalar scales, model vs torch by per-block checksums; "
        "float32 / per-axis: explicit tensors (rank 1..4, axis None/0/-1, distinct per-index scales) with elements at grid midpoints +-1ulp, saturation thresholds, random; "
        "audit: C01's inequality in exact rational arithmetic with the slack 2(u|x|+s*eta)+u|s*c|+eta; non-trivial = finite element whose code is neither 0 nor saturated, distinct = (dtype,qtype,x,scale)"
    )
    ck.ensure_static_build()
    errs = gen_num.generate(REPO, os.path.join(ck.dyn, "GenNum.v"))
    broken = ck.stage_a(errs, ["GenNum.v"], "TieC01.v", "C01.v", tie_text=ties.tie_text("C01"))
    gen_ok = not any(o[0].startswith("compile:") for o in broken)

    # ------------------------------------------------------------------ sweeps
    sweeps = []
    for dtype in ("float16", "bfloat16"):
        for qt in Q8:
            for sb in scales_for(ck, dtype, tier):
                sweeps.append({"fn": "sweep16", "dtype": dtype, "qtype": qt, "scale_bits": sb, "full": True, "requant": dtype == "float16"})
    # ------------------------------------------------------------------ explicit tensors
    calls = []
    rng = ck.rng
    nten = 40 if tier == "quick" else 400
    shapes = [([6], None), ([4, 6], None), ([4, 6], 0), ([4, 6], -1), ([3, 2, 4], 0), ([3, 2, 4], -1), ([2, 3, 2, 2], 0), ([2, 3, 2, 2], -1), ([5, 1], 0), ([1, 7], -1)]
    for i in range(nten):
        dtype = ["float32", "float32", "float16", "bfloat16"][i % 4]
        qt = Q8[i % 3]
        shape, axis = shapes[i % len(shapes)]
        n = 1
        for d in shape:
            n *= d
        if axis is None:
            sshape = []
            nscale = 1
        else:
            sshape = [shape[0]] + [1] * (len(shape) - 1) if axis == 0 else [1] * (len(shape) - 1) + [shape[-1]]
            nscale = shape[0] if axis == 0 else shape[-1]
        svals = [Fraction(rng.choice([rng.uniform(0.001, 0.1), 2.0 ** rng.randint(-12, 2), rng.uniform(0.5, 4)])) for _ in range(nscale)]
        if dtype != "float16" and i % 5 == 4:
            # float32 / bfloat16 scales in the subnormal range (elements are drawn relative to the scale: subnormal as well)
            svals = [Fraction(rng.uniform(1, 8)) * Fraction(2) ** -132 for _ in range(nscale)]
        sbits = [N.encode_nearest(v, dtype) for v in svals]
        svals = [N.decode(b, dtype) for b in sbits]
        grid = GRIDS[qt]
        bits = []
        for j in range(n):
            # the scale this element will meet
            sidx = 0 if axis is None else ((j // (n // shape[0])) if axis == 0 else j % shape[-1])
            s = svals[sidx]
            kind = rng.choice(["mid", "mid", "rand", "sat", "tiny", "grid"])
            if kind == "mid":
                k = rng.randrange(len(grid) - 1)
                v = s * (grid[k] + grid[k + 1]) / 2
                b = N.encode_nearest(v, dtype) + rng.choice([-1, 0, 0, 1])
            elif kind == "sat":
                v = s * grid[rng.choice([0, -1])] * rng.choice([Fraction(1), Fraction(1001, 1000), Fraction(999, 1000), Fraction(3)])
                b = N.encode_nearest(v, dtype) + rng.choice([-1, 0, 1])
            elif kind == "tiny":
                b = rng.choice([0, 1, 2, 0x8001 if dtype != "float32" else 0x80000001, N.encode_nearest(s * grid[len(grid) // 2 + 1] / 3, dtype)])
            elif kind == "grid":
                b = N.encode_nearest(s * grid[rng.randrange(len(grid))], dtype)
            else:
                b = N.encode_nearest(Fraction(rng.uniform(-3, 3)) * s * 40, dtype)
            b = max(0, b)
            if not N.is_finite(N.decode(b, dtype)):
                b = 0
            bits.append(b)
        calls.append({"fn": "sym_quantize", "layout": rng.choice([None, None, None, "transposed", "strided", "offset"]), "dtype": dtype, "shape": shape, "bits": bits, "qtype": qt, "axis": axis, "scale_shape": sshape, "scale_bits": sbits, "requant": dtype != "bfloat16"})
    # activations entry point (scalar scale given as a 1-element tensor)
    for i in range(6 if tier == "quick" else 40):
        dtype = ["float32", "float16", "bfloat16"][i % 3]
        sb = N.encode_nearest(Fraction(rng.uniform(0.01, 0.2)), dtype)
        bits = [N.encode_nearest(Fraction(rng.uniform(-30, 30)), dtype) for _ in range(12)]
        calls.append({"fn": "quantize_activation", "layout": rng.choice([None, None, None, "transposed", "strided", "offset"]), "dtype": dtype, "shape": [3, 4], "bits": bits, "qtype": Q8[i % 3], "scale_shape": [], "scale_bits": [sb], "requant": False})

    # mixed dtypes: the scale is given in ANOTHER float dtype than the tensor (a float32 scale for float16 / bfloat16 values, and the
    # reverse), including scale values that the tensor's dtype cannot hold accurately; the grid is that of the scale as given
    mcalls = []
    for i in range(18 if tier == "quick" else 150):
        dtype, sdt = [("float16", "float32"), ("bfloat16", "float32"), ("float32", "float16"), ("float16", "float32"), ("float32", "bfloat16"), ("float16", "bfloat16")][i % 6]
        qt = Q8[i % 3]
        shape, axis = [([3, 4], None), ([3, 4], 0), ([3, 4], -1), ([2, 3, 2], 0)][(i // 2) % 4]
        n = 1
        for d_ in shape:
            n *= d_
        nscale = 1 if axis is None else (shape[0] if axis == 0 else shape[-1])
        sshape = [] if axis is None else ([shape[0]] + [1] * (len(shape) - 1) if axis == 0 else [1] * (len(shape) - 1) + [shape[-1]])
        lo_exp = -7.0 if dtype == "float16" else -9.0
        sbits = [N.encode_nearest(Fraction(10.0 ** rng.uniform(lo_exp, -1)), sdt) for _ in range(nscale)]
        svals = [N.decode(b, sdt) for b in sbits]
        grid = GRIDS[qt]
        bits = []
        for j in range(n):
            sidx = 0 if axis is None else ((j // (n // shape[0])) if axis == 0 else j % shape[-1])
            sv = svals[sidx]
            kind = rng.choice(["mid", "rand", "sat", "grid"])
            if kind == "mid":
                k = rng.randrange(len(grid) - 1)
                v = sv * (grid[k] + grid[k + 1]) / 2
            elif kind == "sat":
                v = sv * grid[rng.choice([0, -1])] * rng.choice([Fraction(1), Fraction(3)])
            elif kind == "grid":
                v = sv * grid[rng.randrange(len(grid))]
            else:
                v = Fraction(rng.uniform(-3, 3)) * sv * 40
            b = max(0, N.encode_nearest(v, dtype))
            if not N.is_finite(N.decode(b, dtype)):
                b = 0
            bits.append(b)
        mcalls.append({"fn": "sym_quantize", "dtype": dtype, "scale_dtype": sdt, "shape": shape, "bits": bits, "qtype": qt, "axis": axis, "scale_shape": sshape, "scale_bits": sbits})
    mres = ck.impl("numq", {"calls": mcalls}, timeout=1200)
    if isinstance(mres, dict):
        ck.violation("implementation worker crashed (mixed-dtype stream): " + mres.get("stderr", "")[-300:], {"stderr": mres.get("stderr")})
        mres = []
    for c, r in zip(mcalls, mres):
        ck.count("stream", f"mixed:{c['dtype']}/{c['scale_dtype']}")
        if not r["ok"]:
            ck.violation(f"sym_quantize raised {r['exn']} on a {c['dtype']} tensor with a {c['scale_dtype']} scale (shape {c['shape']}, axis {c['axis']})", {"call": c, "exn": r})
            continue
        n = len(c["bits"])
        shape, axis = c["shape"], c["axis"]
        if r["size"] != shape or r["deq"]["shape"] != shape:
            ck.violation("quantized tensor / dequantized tensor does not have the shape of the source", {"call": c})
            continue
        if r["scale"]["data"] != c["scale_bits"] or r["scale_dtype"].replace("torch.", "") != c["scale_dtype"]:
            ck.violation(f"the quantized tensor does not hold the scale it was given ({c['dtype']} tensor, {c['scale_dtype']} scale): the grid {{scale x v}} of the property is that of the given scale",
                         {"call": {k: v for k, v in c.items() if k != "bits"}, "held_scale_bits": r["scale"]["data"], "held_scale_dtype": r["scale_dtype"]})
            continue
        for j in range(n):
            sidx = 0 if axis is None else ((j // (n // shape[0])) if axis == 0 else j % shape[-1])
            if audit_element(ck, c["dtype"], c["qtype"], c["bits"][j], c["scale_bits"][sidx], r["codes"]["data"][j], r["deq"]["data"][j],
                             {"stream": "mixed dtypes", "shape": shape, "axis": axis, "position": j}, sdtype=c["scale_dtype"], ddtype=r["deq_dtype"]):
                ck.case((c["dtype"], c["scale_dtype"], c["qtype"], c["bits"][j], c["scale_bits"][sidx]), nontrivial=r["codes"]["data"][j] not in (0, 127, -128, 126, 254, 123, 251))

    if True:
        # tensors of more than 2**27 elements (first dimension not a multiple of small block counts): float64 block oracle
        for k, (rows_, cols_, dt_) in enumerate([(2049, 65537, "float16"), (4099, 32771, "bfloat16")][: 1 if tier == "quick" else 2]):
            hr = ck.impl("numq", {"calls": [{"fn": "huge", "rows": rows_, "cols": cols_, "dtype": dt_, "qtype": "qint8", "seed": ck.seed + k}], "prelude": False}, timeout=1800)
            ck.count("huge tensor", f"{rows_}x{cols_} {dt_}")
            if isinstance(hr, dict) or not hr[0].get("ok"):
                ck.violation(f"quantizing a {rows_}x{cols_} {dt_} tensor failed: " + str(hr if isinstance(hr, dict) else hr[0])[:200], {"rows": rows_, "cols": cols_, "dtype": dt_})
            elif hr[0]["bad"] or not hr[0]["shape_ok"]:
                ck.violation(f"dequantized value is not a closest grid point on a tensor of {hr[0]['numel']} elements ({rows_}x{cols_}, {dt_}, qint8 per-axis): {hr[0]['bad']} element(s), first at {hr[0]['first']}",
                             {"rows": rows_, "cols": cols_, "dtype": dt_, "seed": ck.seed + k, "first": hr[0]["first"], "bad": hr[0]["bad"]})
            ck.case(("huge", rows_, cols_, dt_), nontrivial=True)
    for c_ in calls:
        ck.count("layout", c_.get("layout") or "contiguous")
    res = ck.impl("numq", {"calls": sweeps + calls}, timeout=2400)
    if isinstance(res, dict) and res.get("crashed"):
        ck.violation("implementation worker crashed: " + res.get("stderr", "")[-300:], {"stderr": res.get("stderr")})
        ck.finish("coqc GenNum.v TieC01.v C01.v")
    rs, rc = res[: len(sweeps)], res[len(sweeps) :]

    # ------------------------------------------------------------------ audit (stage C)
    step = 1 if tier == "thorough" else 5
    for sw, r in zip(sweeps, rs):
        if not r["ok"]:
            ck.violation(f"symmetric quantization raised {r['exn']} on a valid sweep", {"sweep": {k: v for k, v in sw.items()}, "exn": r})
            continue
        dtype, qt, sb = sw["dtype"], sw["qtype"], sw["scale_bits"]
        ck.count("sweep", f"{dtype}/{qt}")
        grid = GRIDS[qt]
        for xb in list(range(0, 65536, step)) + [0x7BFF, 0xFBFF, 0x0001, 0x8001, 0x03FF, 0x0400]:
            code, deqb = r["codes"][xb], r["deq"][xb]
            if audit_element(ck, dtype, qt, xb, sb, code, deqb, {"stream": "sweep16"}):
                cv = N.code_value(code, qt) if qt != "qint8" else Fraction(code)
                nontriv = N.is_finite(cv) and cv != 0 and grid[0] < cv < grid[-1]
                ck.case((dtype, qt, xb, sb), nontrivial=nontriv, sample={"dtype": dtype, "qtype": qt, "x_bits": xb, "scale_bits": sb, "code": code, "deq_bits": deqb} if nontriv and xb % 4099 == 0 else None)
                if "requant_codes" in r and N.is_finite(N.decode(deqb, dtype)) and r["requant_codes"][xb] != code:
                    ck.violation(f"re-quantizing the dequantized value changes the code ({qt}, {dtype})", {"dtype": dtype, "qtype": qt, "x_bits": xb, "scale_bits": sb, "code": code, "requant_code": r["requant_codes"][xb]})
    for c, r in zip(calls, rc):
        ck.count("tensor", f"{c['fn']}/{c['dtype']}/{c['qtype']}/axis={c.get('axis')}")
        if not r["ok"]:
            ck.violation(f"{c['fn']} raised {r['exn']} on a valid configuration (shape {c['shape']}, axis {c.get('axis')})", {"call": c, "exn": r})
            continue
        n = len(c["bits"])
        shape, axis = c["shape"], c.get("axis")
        if r["size"] != shape or r["deq"]["shape"] != shape:
            ck.violation("quantized tensor / dequantized tensor does not have the shape of the source", {"call": c, "observed": {"size": r["size"], "deq_shape": r["deq"]["shape"]}})
            continue
        for j in range(n):
            sidx = 0 if axis is None else ((j // (n // shape[0])) if axis == 0 else j % shape[-1])
            sb = c["scale_bits"][sidx]
            code = r["codes"]["data"][j]
            if audit_element(ck, c["dtype"], c["qtype"], c["bits"][j], sb, code, r["deq"]["data"][j], {"stream": c["fn"], "shape": shape, "axis": axis, "position": j}):
                ck.case((c["dtype"], c["qtype"], c["bits"][j], sb), nontrivial=code not in (0, 127, -128, 126, 254, 123, 251))
                if "requant_codes" in r and r["requant_codes"]["data"][j] != code:
                    ck.violation(f"re-quantizing the dequantized value changes the code ({c['qtype']}, {c['dtype']})", {"call": {k: v for k, v in c.items() if k != "bits"}, "position": j, "x_bits": c["bits"][j], "scale_bits": sb, "code": code, "requant_code": r["requant_codes"]["data"][j]})
        if r.get("input_unchanged") is False:
            ck.violation("quantization modified its float input", {"call": c})

    # ------------------------------------------------------------------ correspondence (stage B)
    if gen_ok:
        N.run_correspondence(ck, calls, rc)
        # sweeps: per-block checksums computed inside Coq from the generated model
        jobs = []
        for i, (sw, r) in enumerate(zip(sweeps, rs)):
            if not r["ok"]:
                continue
            f = N.FMT[sw["dtype"]][0]
            name = f"sweep_{i}"
            body = (
                f"Definition expected : list Z := {zlist(r['sums'])}.\n"
                f"Definition got := sweep16 {f} (@src_sym_forward _ (fnum {f})) (@src_qbytes_dequantize _ (fnum {f})) {sw['qtype']} {sw['scale_bits']}.\n"
                "Eval vm_compute in (failing (fun p => fst p =? snd p) (combine got expected)).\n"
            )
            with open(os.path.join(ck.dyn, name + ".v"), "w") as fh:
                fh.write(N.IMPORTS + body)
            jobs.append((name, sw, r))
        from concurrent.futures import ThreadPoolExecutor

        def runjob(job):
            name, sw, r = job
            rc_, out, err = sh(["coqc", "-Q", COQ, "QV", "-Q", ck.dyn, "QD", name + ".v"], 1800, cwd=ck.dyn)
            return job, rc_, out, err

        with ThreadPoolExecutor(max_workers=14) as ex:
            for (name, sw, r), rc_, out, err in ex.map(runjob, jobs):
                bad = parse_nat_list(out) if rc_ == 0 else None
                if bad is None:
                    ck.corr_mismatch.append({"file": name + ".v", "error": (err or out).strip()[-300:]})
                else:
                    ck.corr_checked += 65536
                    for b in bad[:3]:
                        ck.corr_mismatch.append({"sweep": {k: sw[k] for k in ("dtype", "qtype", "scale_bits")}, "block_of_256_inputs_starting_at": b * 256})
    else:
        ck.notes.append("correspondence skipped: generated model did not compile")

    ck.assumptions += [
        "IEEE semantics of torch's element-wise /, round, clamp, casts and * are MODELLED by Flocq (coq/Float/F.v); checked by the exhaustive 16-bit sweeps and the explicit float32 cases",
        "the property's 'every finite positive scale' is read with the restriction qmax*scale <= largest finite value of the dtype (otherwise the grid itself is not representable)",
        "float-level nearest-point theorem (exact theorem + rounding slack) is work in progress: the audit uses the slack formula; the exact-arithmetic theorem and the tensor-structure theorems are proved",
    ]
    ck.finish(
        "make -C coq ; coqc GenNum.v TieC01.v C01.v (per run, against /repo's current source)",
        trusted_extra=["Flocq 4.1.0 as the definition of IEEE arithmetic", "axioms of Coq's Reals library (via Flocq): sig_forall_dec, sig_not_dec, functional_extensionality_dep, classic"],
        extra_cov={"programs": len(sweeps) + len(calls)},
    )


if __name__ == "__main__":
    main(sys.argv[1] if len(sys.argv) > 1 else "quick")
