"""C03 — scale selection is non-saturating, full-range and local to its axis/group."""
import os
import sys
from fractions import Fraction

sys.path.insert(0, os.path.dirname(os.path.dirname(os.path.abspath(__file__))))
sys.path.insert(0, os.path.join(os.path.dirname(os.path.dirname(os.path.dirname(os.path.abspath(__file__)))), "translators"))
import gen_num  # noqa: E402
import numcorr as N  # noqa: E402
import ties  # noqa: E402
from common import Check, REPO  # noqa: E402


def prod(l):
    p = 1
    for x in l:
        p *= x
    return p


def cell_of(shape, axis, j):
    """index (along the kept axis) of flat position j"""
    n = prod(shape)
    return j // (n // shape[0]) if axis == 0 else j % shape[-1]


def rand_tensor(rng, dtype, shape, axis, style):
    n = prod(shape)
    ncell = shape[0] if axis == 0 else shape[-1]
    mags = [10.0 ** rng.uniform(-4, 2) for _ in range(ncell)]
    offs = [rng.choice([0.0, 0.0, rng.uniform(-3, 3)]) * m for m in mags] if style == "offset" else [0.0] * ncell
    if style == "negative":
        # every value negative, the largest magnitude on a negative entry
        offs = [-3.0 * m for m in mags]
    vals = []
    for j in range(n):
        c = cell_of(shape, axis, j)
        vals.append(N.encode_nearest(Fraction(offs[c] + rng.uniform(-1, 1) * mags[c]), dtype))
    return vals


def main(tier):
    ck = Check("C03", tier)
    ck.coverage["rule"] = (
        "weights: tensors of rank 2..4, axis 0/-1, rows of very different magnitude (4 decades) and offsets, 5 qtypes x 3 dtypes, group sizes; activations: absmax_scale per tensor / per axis; "
        "metamorphic stream: all cells but one are perturbed / rescaled / permuted and the untouched cell's codes and scale are compared bit for bit; non-trivial = accepted configuration with at least two cells; distinct = (dtype,qtype,shape,axis,group,values)"
    )
    ck.ensure_static_build()
    errs = gen_num.generate(REPO, os.path.join(ck.dyn, "GenNum.v"))
    broken = ck.stage_a(errs, ["GenNum.v"], "TieC03.v", "C03.v", tie_text=ties.tie_text("C03"))
    gen_ok = not any(o[0].startswith("compile:") for o in broken)
    rng = ck.rng
    nbase = 60 if tier == "quick" else 500
    shapes = [([4, 6], 0), ([4, 6], -1), ([6, 8], 0), ([3, 2, 4], 0), ([3, 2, 4], -1), ([2, 3, 2, 2], 0), ([2, 2, 2, 3], -1), ([5, 12], 0), ([12, 5], -1),
              ([1, 8], 0), ([8, 1], -1), ([1, 3, 4], 0),
              ([8, 4], -1), ([4, 2], -1), ([6, 3], -1), ([4, 8], 0)]  # last dimension equal to an admissible group size  # a kept axis of size 1 degrades to per-tensor
    calls, meta = [], []
    nextra = 14  # directed: float16 int2 / int4 per-axis tensors whose OTHER cells are pushed to both ends of the dtype (their range overflows)
    # directed: grouped int2 / int4 along the LAST axis with a group size equal to the last dimension (and several groups per column),
    # and along the first axis with a group size equal to the first dimension
    grouped = [([8, 4], -1, 4), ([4, 2], -1, 2), ([6, 3], -1, 3), ([16, 4], -1, 4), ([4, 8], 0, 4), ([2, 8], 0, 2), ([8, 8], -1, 8), ([8, 8], 0, 8)]
    ngrouped = 2 * len(grouped)
    for i in range(nbase + nextra + ngrouped):
        dtype = ["float32", "float16", "bfloat16"][i % 3]
        qt = N.QTYPES[i % 5]
        shape, axis = shapes[i % len(shapes)]
        forced = nbase <= i < nbase + nextra
        forced_gs = None
        if i >= nbase + nextra:
            k = i - nbase - nextra
            shape, axis, forced_gs = grouped[k % len(grouped)]
            qt = ["qint4", "qint2"][k // len(grouped)]
        if forced:
            dtype, qt = "float16", ["qint4", "qint2"][i % 2]
            shape, axis = [([4, 6], 0), ([6, 4], -1), ([3, 2, 4], 0), ([5, 12], 0)][i % 4]
        per = prod(shape) // (shape[0] if axis == 0 else shape[-1])
        gs = None
        if qt in ("qint2", "qint4") and rng.random() < 0.6 and not forced:
            divs = [g for g in range(1, per + 1) if per % g == 0]
            gs = rng.choice(divs)
        if forced_gs is not None:
            gs = forced_gs
        style = rng.choice(["plain", "offset", "negative"])
        bits = rand_tensor(rng, dtype, shape, axis, style)
        base = {"fn": "quantize_weight", "layout": rng.choice([None, None, None, "transposed", "strided", "offset"]), "dtype": dtype, "shape": shape, "bits": bits, "qtype": qt, "axis": axis, "group_size": gs, "optimizer": None}
        calls.append(base)
        meta.append(("base", i, None))
        if gs is None:
            # metamorphic variants: keep cell k, change the others
            ncell = shape[0] if axis == 0 else shape[-1]
            k = rng.randrange(ncell)
            for kind in ("perturb", "rescale", "permute"):
                b2 = list(bits)
                perm = list(range(ncell))
                if kind == "permute":
                    rng.shuffle(perm)
                for j in range(len(bits)):
                    c = cell_of(shape, axis, j)
                    if kind == "perturb" and c != k:
                        # (float16: every third perturbation pushes the OTHER cells to both ends of the dtype, so that their range overflows)
                        b2[j] = N.encode_nearest(Fraction(rng.uniform(-50, 50)) if not (dtype == "float16" and ((i // 3) % 2 == 0 or i >= nbase)) else Fraction(rng.choice([-60000, 60000, 100, -3])), dtype)
                    elif kind == "rescale" and c != k:
                        v = N.decode(bits[j], dtype)
                        b2[j] = N.encode_nearest(v * 37, dtype) if N.is_finite(v) else bits[j]
                    elif kind == "permute":
                        # position of the same within-cell offset in source cell perm[c]
                        n = len(bits)
                        if axis == 0:
                            w = n // shape[0]
                            b2[j] = bits[perm[c] * w + j % w]
                        else:
                            b2[j] = bits[(j // shape[-1]) * shape[-1] + perm[c]]
                calls.append(dict(base, bits=b2))
                meta.append((kind, i, (k, perm)))
    # activations: absmax_scale
    acalls = []
    for i in range(30 if tier == "quick" else 200):
        dtype = ["float32", "float16", "bfloat16"][i % 3]
        qt = ["qint8", "qfloat8_e4m3fn", "qfloat8_e5m2"][i % 3]
        shape, axis = rng.choice([([3, 5], None), ([3, 5], 0), ([3, 5], -1), ([2, 3, 4], None), ([2, 3, 4], 1), ([7], None)])
        bits = [N.encode_nearest(Fraction(rng.uniform(-1, 1) * 10.0 ** rng.uniform(-3, 2)), dtype) for _ in range(prod(shape))]
        acalls.append({"fn": "absmax_scale", "layout": rng.choice([None, None, None, "transposed", "strided", "offset"]), "dtype": dtype, "shape": shape, "bits": bits, "qtype": qt, "axis": axis})
    # histories: the same Parameter object quantized, updated in place, quantized again - must equal a fresh tensor of the same values
    hcalls = []
    for i in range(20 if tier == "quick" else 120):
        dtype = ["float32", "float16", "bfloat16"][i % 3]
        qt = N.QTYPES[i % 5]
        shape, axis = rng.choice([([4, 6], 0), ([4, 6], -1), ([3, 2, 4], 0)])
        bits = [N.encode_nearest(Fraction(rng.uniform(-1, 1) * 10.0 ** rng.uniform(-2, 1)), dtype) for _ in range(prod(shape))]
        hcalls.append({"fn": "quantize_weight_history", "dtype": dtype, "shape": shape, "bits": bits, "qtype": qt, "axis": axis, "group_size": None, "optimizer": rng.choice([None, None, "max" if qt in ("qint2", "qint4") else "absmax"]),
                       "update": ["data_mul", "data_shrink", "data_copy", "data_index", "no_grad_mul"][i % 5], "requires_grad": rng.random() < 0.7, "no_grad_calls": rng.random() < 0.5})
    hres = ck.impl("numq", {"calls": hcalls}, timeout=1200)
    if isinstance(hres, dict):
        ck.violation("implementation worker crashed (history stream): " + hres.get("stderr", "")[-300:], {"stderr": hres.get("stderr")})
    else:
        for c, r in zip(hcalls, hres):
            cfg = {k: c[k] for k in ("dtype", "qtype", "shape", "axis", "update", "requires_grad", "no_grad_calls", "optimizer")}
            ck.count("stream", "history:" + c["update"])
            if not r["ok"]:
                ck.violation(f"quantize_weight raised {r['exn']} on a Parameter ({c['update']})", {"config": cfg, "exception": r, "bits": c["bits"]})
            elif not r["same"]:
                ck.violation(f"quantize_weight of a Parameter after an in-place update ({c['update']}) differs from quantizing a fresh tensor holding the same values: the scale depends on the history of the object, not on its values",
                             {"config": cfg, "bits": c["bits"], "observed": r})
            ck.case(("history", c["dtype"], c["qtype"], c["update"], tuple(c["bits"])), nontrivial=True)
    for c_ in calls + acalls:
        ck.count("layout", c_.get("layout") or "contiguous")
    res = ck.impl("numq", {"calls": calls + acalls}, timeout=2400)
    if isinstance(res, dict):
        ck.violation("implementation worker crashed: " + res.get("stderr", "")[-300:], {"stderr": res.get("stderr")})
        ck.finish("coqc GenNum.v TieC03.v C03.v")
    rw, ra = res[: len(calls)], res[len(calls) :]

    base_results = {}
    for (kind, i, extra), c, r in zip(meta, calls, rw):
        cfg = {k: c[k] for k in ("dtype", "qtype", "shape", "axis", "group_size")}
        if not r["ok"]:
            ck.violation(f"quantize_weight raised {r['exn']} on a valid configuration", {"config": cfg, "exception": r, "bits": c["bits"]})
            continue
        dtype, qt = c["dtype"], c["qtype"]
        u, eta = N.u_eta(dtype)
        shape, axis = c["shape"], c["axis"]
        ck.count("stream", kind)
        ck.count("qtype", qt)
        if kind == "base":
            base_results[i] = (c, r)
            ck.case((dtype, qt, tuple(shape), axis, c["group_size"], tuple(c["bits"])), nontrivial=True, sample=cfg | {"scale_shape": r["scale"]["shape"]} if len(ck.samples) < 4 else None)
            n = len(c["bits"])
            xs = [N.decode(b, dtype) for b in c["bits"]]
            is8 = N.QINFO[qt][1] == 8
            if r["scale_dtype"] != "torch." + dtype:
                ck.violation(f"scale dtype {r['scale_dtype']} differs from the source dtype {dtype}", {"config": cfg})
            if is8:
                ncell = shape[0] if axis == 0 else shape[-1]
                want_shape = ([ncell] + [1] * (len(shape) - 1)) if axis == 0 else ([1] * (len(shape) - 1) + [ncell])
                if ncell == 1:
                    want_shape = []  # per-tensor
                if r["scale"]["shape"] != want_shape:
                    ck.violation(f"scale shape {r['scale']['shape']} is not one value per kept-axis index {want_shape}", {"config": cfg})
                    continue
                scales = [N.decode(b, dtype) for b in r["scale"]["data"]]
                for cidx in range(ncell):
                    members = [xs[j] for j in range(n) if cell_of(shape, axis, j) == cidx]
                    am = max(abs(v) for v in members)
                    s = scales[cidx]
                    if not N.is_finite(s):
                        ck.violation("non-finite scale for a finite tensor", {"config": cfg, "cell": cidx})
                        continue
                    # full range: no larger than absmax/qmax up to rounding (qmax = 127: the quantity the weight optimizer divides by)
                    if s > am / 127 * (1 + u) + eta:
                        ck.violation(f"8-bit weight scale larger than absmax/qmax beyond rounding (cell {cidx})", {"config": cfg, "scale": float(s), "absmax": float(am), "bits": c["bits"]})
                    # non-saturating: |x/s| <= qmax (1+2u)
                    if s > 0 and am / s > 127 * (1 + 2 * u) * (1 + eta / s):
                        ck.violation(f"8-bit weight scale saturates an element of its own cell (cell {cidx})", {"config": cfg, "scale": float(s), "absmax": float(am), "bits": c["bits"]})
            else:
                L = 2 ** N.QINFO[qt][1] - 1
                gsz = c["group_size"]
                scales = [N.decode(b, dtype) for b in r["scale"]["data"]]
                zps = r["zp"]["data"]
                codes = r["codes"]["data"]
                if any(cd < 0 or cd > L for cd in codes):
                    ck.violation("int2/int4 code outside [0, 2^bits-1]", {"config": cfg})
                # group membership in the grouped layout: reconstruct by dequantized positions
                deq = [N.decode(b, dtype) for b in r["deq"]["data"]]
                ncell = len(scales)
                # cells: axis 0 -> consecutive runs of gsz (or a whole row); axis -1 -> column c, row block
                groups = {}
                for j in range(n):
                    if gsz is None:
                        g = cell_of(shape, axis, j)
                    elif axis == 0:
                        g = j // gsz
                    else:
                        col = j % shape[-1]
                        rowi = j // shape[-1]
                        g = ("c", col, rowi // gsz)
                    groups.setdefault(g, []).append(j)
                if len(groups) != ncell:
                    ck.violation(f"number of scales {ncell} differs from the number of groups {len(groups)}", {"config": cfg})
                for g, js in groups.items():
                    lo = min([xs[j] for j in js] + [Fraction(0)])
                    hi = max([xs[j] for j in js] + [Fraction(0)])
                    step_bound = (hi - lo) / L
                    worst = max(abs(deq[j] - xs[j]) for j in js)
                    slack = (2 ** N.QINFO[qt][1]) * (u * max(abs(lo), abs(hi)) + u * step_bound) + 2 * eta
                    if worst > step_bound * (1 + 2 * u) / 2 + slack:
                        ck.violation(f"int2/int4 element differs from its source by more than half a step of (hi-lo)/(2^bits-1) (zero-point wrap / saturation)", {"config": cfg, "group": str(g), "worst": float(worst), "half_step": float(step_bound / 2), "bits": c["bits"]})
        else:
            if i not in base_results:
                continue
            c0, r0 = base_results[i]
            k, perm = extra
            n = len(c["bits"])
            ncell = shape[0] if axis == 0 else shape[-1]
            if kind in ("perturb", "rescale"):
                same = [j for j in range(n) if cell_of(shape, axis, j) == k]
                if [r["codes"]["data"][j] for j in same] != [r0["codes"]["data"][j] for j in same] or r["scale"]["data"][k] != r0["scale"]["data"][k] or (r["zp"]["data"] and r["zp"]["data"][k] != r0["zp"]["data"][k]):
                    ck.violation(f"codes/scale of a cell changed when only OTHER cells were {kind}ed", {"config": cfg, "kept_cell": k, "bits_before": c0["bits"], "bits_after": c["bits"]})
            else:
                for cnew in range(ncell):
                    src = perm[cnew]
                    jn = [j for j in range(n) if cell_of(shape, axis, j) == cnew]
                    jo = [j for j in range(n) if cell_of(shape, axis, j) == src]
                    if [r["codes"]["data"][j] for j in jn] != [r0["codes"]["data"][j] for j in jo] or r["scale"]["data"][cnew] != r0["scale"]["data"][src]:
                        ck.violation("permuting cells does not permute codes/scales the same way", {"config": cfg, "perm": perm, "bits_before": c0["bits"], "bits_after": c["bits"]})
                        break
            ck.case((kind, i), nontrivial=True)
    for c, r in zip(acalls, ra):
        cfg = {k: c[k] for k in ("dtype", "qtype", "shape", "axis")}
        if not r["ok"]:
            ck.violation(f"absmax_scale raised {r['exn']}", {"config": cfg, "exception": r})
            continue
        dtype = c["dtype"]
        u, eta = N.u_eta(dtype)
        qmax = N.QINFO[c["qtype"]][3]
        xs = [N.decode(b, dtype) for b in c["bits"]]
        shape, axis = c["shape"], c["axis"]
        scales = [N.decode(b, dtype) for b in r["scale"]["data"]]
        ck.case(("absmax_scale", dtype, c["qtype"], tuple(shape), axis, tuple(c["bits"])), nontrivial=True)
        if axis is None:
            cells = {0: xs}
        else:
            a = axis % len(shape)
            inner = prod(shape[a + 1 :])
            cells = {}
            for j, v in enumerate(xs):
                cells.setdefault((j // inner) % shape[a], []).append(v)
        if len(scales) != len(cells):
            ck.violation("absmax_scale: not exactly one scale per kept-axis index", {"config": cfg, "scale_shape": r["scale"]["shape"]})
            continue
        for cidx, members in cells.items():
            am = max(abs(v) for v in members)
            s = scales[cidx]
            if s > am / qmax * (1 + u) + eta:
                ck.violation("activation scale larger than absmax/qmax beyond rounding", {"config": cfg, "scale": float(s), "absmax": float(am)})
            if s > 0 and am / s > qmax * (1 + 2 * u) * (1 + eta / s):
                ck.violation("activation scale saturates an element of the tensor it was computed from", {"config": cfg, "scale": float(s), "absmax": float(am)})
    if gen_ok:
        keep = [i for i, m in enumerate(meta) if m[0] == "base"]
        N.run_correspondence(ck, [calls[i] for i in keep] + acalls, [rw[i] for i in keep] + ra, shard=40)
    ck.assumptions += [
        "for float8 WEIGHTS the optimizer divides by 127, not by the float8 maximum (448 / 57344): only part of the float8 range is used; the property text fixes no qmax for that case, so this is recorded as an observation, not raised",
        "float rounding of the scale itself is covered by the audit's (1+u) / (1+2u) factors; the exact-arithmetic theorem has no slack",
    ]
    ck.finish("make -C coq ; coqc GenNum.v TieC03.v C03.v (per run, against /repo's current source)",
              trusted_extra=["Flocq 4.1.0 as IEEE semantics in the correspondence model", "Reals axioms for the exact-arithmetic theorem"],
              extra_cov={"programs": len(calls) + len(acalls)})


if __name__ == "__main__":
    main(sys.argv[1] if len(sys.argv) > 1 else "quick")
