"""C11 — Gradients pass straight through quantization and match the float linear backward."""
import os
import sys

sys.path.insert(0, os.path.dirname(os.path.dirname(os.path.abspath(__file__))))
sys.path.insert(0, os.path.join(os.path.dirname(os.path.dirname(os.path.dirname(os.path.abspath(__file__)))), "translators"))
import gen_grad  # noqa: E402
import gen_mod  # noqa: E402
import modties  # noqa: E402
from common import COQ, Check, REPO, parse_nat_list, sh, zlist  # noqa: E402
from modgen import rand_conv, rand_linear  # noqa: E402

IMPORTS = "From Coq Require Import List ZArith.\nFrom QV Require Import Model.Grad.\nImport ListNotations.\n"


def zl(xs):
    return zlist(xs) + "%Z"


def main(tier):
    ck = Check("C11", tier)
    ck.coverage["rule"] = (
        "(exact) QTensorLinear on integer-valued operands: leading shapes of rank 1..3 (input ranks 2..4), K 1..6, M 1..5, with / without bias, upstream gradients contiguous / permuted / expanded / "
        "strided, permuted inputs: output and the three gradients compared as exact integers with the Coq model; (modules) unfrozen and frozen QLinear / QConv2d twins over six weight qtypes, activations "
        "None/qint8/qfloat8, three dtypes, input ranks 2..4, upstream gradient layouts, 0..2 in-place weight updates between forwards; non-trivial = unfrozen module whose three gradients were compared"
    )
    ck.ensure_static_build()
    errs = gen_grad.generate(REPO, os.path.join(ck.dyn, "GenGrad.v"))
    ck.stage_a(errs, ["GenGrad.v"], "TieGrad.v", "C11.v", tie_text=modties.grad_tie_text())
    rng = ck.rng
    nex = 150 if tier == "quick" else 4000
    nmod = 60 if tier == "quick" else 2000
    exact = []
    for i in range(nex):
        lead = [rng.randint(1, 4) for _ in range(rng.randint(1, 3))]
        exact.append({"seed": ck.seed * 1000 + i, "lead": lead, "K": rng.randint(1, 6), "M": rng.randint(1, 5), "bias": rng.random() < 0.7,
                      "layout": rng.choice(["contig", "permuted", "expanded", "sliced"]), "x_layout": rng.choice(["contig", "permuted"])})
    wq = ["qint8", "qint4", "qint2", "qfloat8", "qfloat8_e4m3fn", "qfloat8_e5m2"]
    aq = [None, "qint8", "qfloat8", None]
    modules = []
    for i in range(nmod):
        spec = rand_linear(rng) if rng.random() < 0.6 else rand_conv(rng)
        dtype = ["float32", "float32", "float16", "bfloat16"][i % 4]
        w, a = wq[i % 6], aq[(i // 2) % 4]
        if dtype == "bfloat16" and w == "qint8" and a is None and spec["t"] == "linear" and spec["in"] % 4 == 0 and spec["in"] % 16 != 0:
            spec["in"] = 16 * (spec["in"] // 16 + 1)  # F14 (C07): interpreter crash in torch._weight_int8pack_mm
        modules.append({"seed": ck.seed * 1000 + 5000 + i, "dtype": dtype, "weights": w, "activations": a, "frozen": rng.random() < 0.3, "variant": rng.randint(0, 11),
                        "layout": rng.choice(["contig", "contig", "permuted", "expanded"]), "updates": rng.randint(0, 2), "update_via": rng.choice(["data", "inplace", "assign_data", "state_dict"]), "warm_no_grad": rng.random() < 0.4, "in_calibration": rng.random() < 0.3, "spec": spec,
                        "gscale": 1024.0 if (dtype == "float16" and i % 2 == 0) else 1.0})
    # chains of two quantized linears whose activation qtypes differ (and same-qtype controls)
    chains = [{"seed": 40 + k, "dtype": dt_, "weights": "qint8", "acts": acts_, "lead": lead_}
              for k, (dt_, acts_, lead_) in enumerate([("float32", ["qfloat8", "qint8"], [4]), ("float32", ["qint8", "qfloat8_e5m2"], [2, 3]), ("float16", ["qfloat8", "qint8"], [2, 2, 3]),
                                                       ("float32", ["qint8", "qint8"], [4]), ("bfloat16", ["qint8", "qfloat8"], [4]), ("float32", [None, "qint8"], [4]), ("float32", ["qint8", None], [4])])]
    res = ck.impl("grad", {"exact": exact, "modules": modules, "chains": chains}, timeout=3300)
    if "crashed" in res:
        ck.violation("implementation worker crashed: " + res.get("stderr", "")[-300:], {"stderr": res.get("stderr")})
        ck.finish("coqc GenGrad.v TieGrad.v C11.v")
    for c, r in zip(chains, res.get("chains", [])):
        ck.count("chain", f"{c['acts'][0]}->{c['acts'][1]}")
        ck.case(("chain", c["dtype"], tuple(str(a_) for a_ in c["acts"]), tuple(c["lead"])), nontrivial=c["acts"][0] != c["acts"][1])
        if not r.get("ok"):
            ck.violation(f"forward / backward through two quantized linears (activations {c['acts'][0]} -> {c['acts'][1]}, {c['dtype']}) raised {r.get('exn')}: {str(r.get('msg'))[:120]}", {"case": c, "exception": r})
            continue
        bad = {k_: v_ for k_, v_ in r["grads"].items() if v_ != "ok"}
        if bad:
            ck.violation(f"after a backward pass through two quantized linears (activations {c['acts'][0]} -> {c['acts'][1]}, {c['dtype']}) some gradients are missing / non-finite / unrelated to the float model's: {bad}", {"case": c, "grads": r["grads"]})
    # ---- correspondence: exact integer gradients vs the Coq model
    rows = []
    refs = []
    for c, r in zip(exact, res["exact"]):
        ck.count("exact_layout", c["layout"]); ck.count("exact_rank", len(c["lead"]) + 1)
        if not r["ok"]:
            what = f"QTensorLinear backward raised {r['exn']}: {r['msg'][:160]}"
            ck.violation(what, {"case": c, "exception": r})
            continue
        b = "None" if r["b"] is None else f"(Some {zl(r['b'])})"
        gb = "None" if r["gb"] is None else f"(Some {zl(r['gb'])})"
        rows.append(f"(({r['N']}%nat, {c['M']}%nat, {c['K']}%nat), ({zl(r['X'])}, {zl(r['W'])}, {b}, {zl(r['G'])}), ({zl(r['y'])}, {zl(r['gx'])}, {zl(r['gw'])}, {gb}))")
        refs.append({"case": c, "result": r})
    for s in range(0, len(rows), 300):
        part = rows[s : s + 300]
        name = f"grad_{s}"
        body = ("Definition cases : list ((nat * nat * nat) * (list Z * list Z * option (list Z) * list Z) * (list Z * list Z * list Z * option (list Z))) := [\n"
                + ";\n".join(part) + "].\nEval vm_compute in (failing chk_grad cases).\n")
        with open(os.path.join(ck.dyn, name + ".v"), "w") as fh:
            fh.write(IMPORTS + body)
        rc, out, err = sh(["coqc", "-Q", COQ, "QV", "-Q", ck.dyn, "QD", name + ".v"], 900, cwd=ck.dyn)
        bad = parse_nat_list(out) if rc == 0 else None
        if bad is None:
            ck.corr_mismatch.append({"file": name + ".v", "error": (err or out).strip()[-300:]})
        else:
            ck.corr_checked += len(part)
            for k in bad:
                ref = refs[s + k]
                ck.violation(f"the explicit linear backward differs from the gradient of the float linear map on exact integer operands (leading shape {ref['case']['lead']}, {ref['case']['layout']} upstream gradient)", ref)
    # ---- audit of the modules
    for c, r in zip(modules, res["modules"]):
        cfg = dict(c)
        kind = c["spec"]["t"]
        ck.count("module", kind); ck.count("dtype", c["dtype"]); ck.count("weights", c["weights"]); ck.count("activations", c["activations"]); ck.count("frozen", c["frozen"]); ck.count("layout", c["layout"])
        if not r["ok"]:
            ck.violation(f"{kind} twin: setting up raised {r['exn']}: {r['msg'][:160]}", {"case": cfg, "exception": r})
            continue
        prev_bits = prev_q = None
        compared = False
        for st in r["steps"]:
            ctx = {"case": cfg, "step": st}
            tag = f"{'frozen' if c['frozen'] else 'unfrozen'} quantized {kind} ({c['weights']}, activations {c['activations']}, {c['dtype']}, input rank {len(r['input_shape'])}, {c['layout']} upstream gradient)"
            if "exn" in st:
                ck.violation(f"{tag}: backward raised {st['exn']}: {st['msg'][:140]}", ctx)
                break
            if c.get("in_calibration") and c["activations"] is not None:
                tag += " [forward inside a Calibration context]"
            if st.get("grads_alias_upstream"):
                ck.violation(f"{tag}: the gradient(s) {st['grads_alias_upstream']} handed back share storage with the upstream gradient (overwriting that buffer afterwards changed them)", ctx)
            if st["x_grad"] is None or not st["x_grad_shape_ok"]:
                ck.violation(f"{tag}: no gradient (or a gradient of the wrong shape) reaches the input", ctx)
            elif st["x_grad"] > 1:
                ck.violation(f"{tag}: input gradient differs from the float twin's by {st['x_grad']:.3g}x the rounding bound", ctx)
            if "b_grad" in st:
                if st["b_grad"] is None:
                    ck.violation(f"{tag}: no gradient reaches the bias", ctx)
                elif st["b_grad"] > 1:
                    ck.violation(f"{tag}: bias gradient differs from the float twin's by {st['b_grad']:.3g}x the rounding bound", ctx)
            if not st["scale_grads_none"]:
                ck.violation(f"{tag}: a scale received a gradient", ctx)
            if c["frozen"]:
                if not st["weight_grad_none"] or st["weight_requires_grad"]:
                    ck.violation(f"{tag}: the frozen weight receives a gradient (requires_grad={st['weight_requires_grad']})", ctx)
                if prev_bits is not None and st["out_bits"] != prev_bits:
                    ck.violation(f"{tag}: outputs of a frozen module changed between forwards", ctx)
            else:
                if not st["weight_is_float_param"]:
                    ck.violation(f"{tag}: the weight of an unfrozen module is not a float parameter requiring gradients", ctx)
                if st["w_grad"] is None or not st["w_grad_dtype_ok"]:
                    ck.violation(f"{tag}: no gradient (or one of the wrong shape / dtype) reaches the float weight", ctx)
                elif st["w_grad"] > 1:
                    ck.violation(f"{tag}: weight gradient differs from the float twin's by {st['w_grad']:.3g}x the rounding bound", ctx)
                else:
                    compared = True
                if not st["qweight_is_fresh"]:
                    ck.violation(f"{tag}: the forward did not re-quantize from the current float weight", ctx)
                # with quantized activations the output may saturate at the (fixed) output scale: the quantized weight itself is compared
                if prev_bits is not None and (st["qweight_bits"] == prev_q or (c["activations"] is None and st["out_bits"] == prev_bits)):
                    ck.violation(f"{tag}: an in-place update of the float weight is not reflected by the next forward", ctx)
            prev_bits = st["out_bits"]
            prev_q = st["qweight_bits"]
        ck.case((kind, c["dtype"], c["weights"], c["activations"], c["frozen"], len(r["input_shape"]), c["layout"], str(c["spec"])), nontrivial=compared,
                sample={"config": cfg, "first_step": r["steps"][0] if r["steps"] else None} if len(ck.samples) < 3 else None)
    ck.assumptions += [
        "the float twin is the original torch module with weight = dequantized quantized weight and input = (de)quantized input as autograd leaves; torch's own autograd of F.linear / F.conv2d is the oracle for the twin",
        "gradient tolerance: ((K+2)u_acc + 5u) * (same contraction on absolute values), K = length of the contraction producing that gradient",
        "Conv2d's backward is torch's convolution_backward on the dequantized operands (reached through the dispatch fallback): it is exercised and compared, not modelled",
    ]
    ck.finish("make -C coq ; coqc GenGrad.v TieGrad.v C11.v grad_*.v (per run, against /repo's current source)",
              trusted_extra=["translators/gen_grad.py (backward expressions / return tuples / fingerprints)", "Reals axioms for the real-number instance of the adjoint theorems (the ring-generic proofs are axiom-free)"],
              extra_cov={"programs": len(exact) + len(modules)})


if __name__ == "__main__":
    main(sys.argv[1] if len(sys.argv) > 1 else "quick")
