"""C15 — AWQ layouts are bijective, match the reference, and denote the same weights."""
import os
import sys
from concurrent.futures import ThreadPoolExecutor

sys.path.insert(0, os.path.dirname(os.path.dirname(os.path.abspath(__file__))))
sys.path.insert(0, os.path.join(os.path.dirname(os.path.dirname(os.path.dirname(os.path.abspath(__file__)))), "translators"))
import gen_awq  # noqa: E402
import modties  # noqa: E402
from common import COQ, Check, REPO, parse_nat_list, sh, zlist  # noqa: E402

IMPORTS = "From Coq Require Import List ZArith.\nFrom QV Require Import Lib.Res Lib.Tensor Lib.ND Model.Awq Proofs.AwqProofs.\nImport ListNotations.\nOpen Scope Z_scope.\n"


def coq_t(t):
    return f"(T {zlist(t['shape'])} {zlist(t['data'])})"


def main(tier):
    ck = Check("C15", tier)
    ck.coverage["rule"] = (
        "(layout) random, position-pattern and all-15 4-bit matrices over rows 1..64 and columns 8..512: v1 plain / reordered, v2 and the reference packer of external/awq, executed on the CPU from a private "
        "copy of the two awq modules whose device assertions are removed at AST level; every packed / unpacked tensor is compared element by element with the Coq model (vm_compute); larger shapes are proved "
        "bijective for every content by evaluating the position permutation inside Coq (thorough); (representation) float16 group-128 int4 weights of several shapes and distributions: optimised vs standard "
        "dequantization, back conversion; non-trivial = shape admissible for v2 with random content"
    )
    ck.ensure_static_build()
    errs = gen_awq.generate(REPO, os.path.join(ck.dyn, "GenAwq.v"))
    ck.stage_a(errs, ["GenAwq.v"], "TieAwq.v", "C15.v", tie_text=modties.awq_tie_text())
    rng = ck.rng
    layout = []
    shapes = [(4, 64), (8, 64), (4, 128), (8, 128), (12, 192), (16, 64), (1, 8), (3, 16), (2, 24), (5, 40), (4, 8), (7, 64), (4, 72), (6, 128)]
    if tier != "quick":
        shapes += [(32, 256), (64, 128), (20, 320), (16, 512), (8, 384), (1, 128), (9, 104), (64, 64)]
    nrep = 2 if tier == "quick" else 5
    for (n, k) in shapes:
        for rep in range(nrep):
            layout.append({"seed": ck.seed + 31 * n + k + rep, "N": n, "K": k, "pattern": ["random", "iota", "random", "max", "random"][rep % 5]})
    reprs = []
    for i in range(6 if tier == "quick" else 40):
        reprs.append({"seed": ck.seed + 900 + i, "out": rng.choice([4, 8, 16, 32]), "in": rng.choice([128, 256, 384, 512]), "std": rng.choice([0.02, 1.0, 30.0]), "mean": rng.choice([0.0, 0.0, 0.5, -3.0]),
                      "degenerate": [] if i % 2 else [(rng.choice(["zero", "zero", "const", "tiny"]), (rng.randrange(32), rng.randrange(4))) for _ in range(rng.randint(1, 3))]})
    res = ck.impl("awq", {"layout": layout, "repr": reprs}, timeout=3000)
    if "crashed" in res:
        ck.violation("implementation worker crashed: " + res.get("stderr", "")[-300:], {"stderr": res.get("stderr")})
        ck.finish("coqc GenAwq.v TieAwq.v C15.v")
    ck.notes.append(f"device assertions removed from the private copy of the awq modules: {res['dropped_asserts']}")
    rows, refs = [], []
    for c, r in zip(layout, res["layout"]):
        ck.count("shape", f"{c['N']}x{c['K']}"); ck.count("pattern", c["pattern"])
        if not r["ok"]:
            ck.violation(f"AWQ packing raised {r['exn']} on a {c['N']}x{c['K']} matrix: {r['msg'][:140]}", {"case": c, "exception": r})
            continue
        t = r["t"]
        ctx = {"case": c}
        # audit on the implementation alone: round trips, reference equality, dtypes
        if r["u1"]["data"] != t["data"] or r["u1"]["shape"] != t["shape"]:
            ck.violation(f"v1 unpack(pack(t)) differs from t on a {c['N']}x{c['K']} matrix", ctx | {"t": t, "got": r["u1"]})
        if r["u1r"]["data"] != t["data"] or r["u1r"]["shape"] != t["shape"]:
            ck.violation(f"v1 unpack(pack(t, reorder), reorder) differs from t on a {c['N']}x{c['K']} matrix", ctx | {"t": t, "got": r["u1r"]})
        if r["p1"]["dtype"] != "torch.int32" or r["p1"]["shape"] != [c["N"], c["K"] // 8]:
            ck.violation("v1 packed tensor is not int32 of shape (rows, columns / 8)", ctx | {"got": r["p1"]["shape"]})
        for key, verdict in r.get("pure", {}).items():
            if verdict != "ok":
                ck.violation(f"AWQ {key.split('/')[0]} on a 4-bit matrix held as {key.split('/')[1]}: {verdict} ({c['N']}x{c['K']})", ctx | {"t": t, "verdict": r["pure"]})
        for key, verdict in r.get("transposed_view", {}).items():
            if verdict != "ok":
                ck.violation(f"AWQPackedTensor pack / unpack / detach history ({key}) on a 4-bit matrix given as a transposed view: {verdict} ({c['N']}x{c['K']})", ctx | {"t": t})
        v2 = "p2" in r
        if v2:
            if r["u2"]["data"] != t["data"] or r["u2"]["shape"] != t["shape"]:
                ck.violation(f"unpack_v2(pack_v2(t)) differs from t on a {c['N']}x{c['K']} matrix", ctx | {"t": t, "got": r["u2"]})
            if r["p2"] != r["ref"]:
                ck.violation(f"pack_v2 differs from the reference AWQ packer on a {c['N']}x{c['K']} matrix", ctx | {"quanto": r["p2"], "reference": r["ref"]})
            if r["p2"]["dtype"] != "torch.int16" or r["p2"]["shape"] != [c["N"] // 4, c["K"]]:
                ck.violation("v2 packed tensor is not int16 of shape (rows / 4, columns)", ctx | {"got": r["p2"]["shape"]})
            if "cls_exn" in r or not all(r.get("cls_v2", {}).get(k) for k in ("data_equal", "unpack_equal")) or not all(r.get("cls_v1", {}).get(k) for k in ("data_equal", "unpack_equal")):
                ck.violation("AWQPackedTensor.pack / unpack disagree with the module-level functions", ctx | {"cls": r.get("cls_v2"), "cls_v1": r.get("cls_v1"), "exn": r.get("cls_exn")})
        ck.case(("layout", c["N"], c["K"], c["pattern"], c["seed"]), nontrivial=v2 and c["pattern"] == "random", sample={"case": c, "packed_v1_head": r["p1"]["data"][:3]} if len(ck.samples) < 2 else None)
        if c["N"] * c["K"] <= 4096:
            tt = {"shape": t["shape"], "data": t["data"]}
            v2s = f"(Some ({coq_t(r['p2'])}, {coq_t(r['ref'])}))" if v2 else "None"
            rows.append(f"({coq_t(tt)}, ({coq_t(r['p1'])}, {coq_t(r['p1r'])}, {v2s}))")
            refs.append({"case": c})
    jobs = []
    for s in range(0, len(rows), 8):
        part = rows[s : s + 8]
        body = "Definition cases : list (tensor Z * (tensor Z * tensor Z * option (tensor Z * tensor Z))) := [\n" + ";\n".join(part) + "].\nEval vm_compute in (failing chk_awq cases).\n"
        jobs.append((f"awq_{s}", body, refs[s : s + 8]))
    # thorough: larger shapes proved bijective (and equal to the reference) for every content, inside Coq
    big = [] if tier == "quick" else [(20, 64), (8, 256), (24, 128), (32, 64), (16, 256)]
    for (n, k) in big:
        body = (f"Theorem v2_{n}_{k} : forall dt, zlen dt = {n} * {k} -> digits dt ->\n  (p <- pack_v2 (T [{n}; {k}] dt) ;; unpack_v2 p) = Ok (T [{n}; {k}] dt) /\\ pack_ref (T [{n}; {k}] dt) = pack_v2 (T [{n}; {k}] dt).\n"
                f"Proof. intros dt. apply v2_roundtrip_of_ok. vm_compute. reflexivity. Qed.\nEval vm_compute in (@nil nat).\n")
        jobs.append((f"v2shape_{n}_{k}", "From QV Require Import Proofs.AwqNibbles.\n" + body, [{"shape": [n, k]}]))

    def run(job):
        name, body, rf = job
        with open(os.path.join(ck.dyn, name + ".v"), "w") as fh:
            fh.write(IMPORTS + body)
        rc, out, err = sh(["coqc", "-Q", COQ, "QV", "-Q", ck.dyn, "QD", name + ".v"], 2400, cwd=ck.dyn)
        return name, rf, rc, out, err

    with ThreadPoolExecutor(max_workers=12) as ex:
        for name, rf, rc, out, err in ex.map(run, jobs):
            bad = parse_nat_list(out) if rc == 0 else None
            if bad is None:
                if name.startswith("v2shape_"):
                    ck.obligations.append((name, False, (err or out).strip()[-300:]))
                else:
                    ck.corr_mismatch.append({"file": name + ".v", "error": (err or out).strip()[-300:]})
            else:
                if name.startswith("v2shape_"):
                    ck.obligations.append((name, True, ""))
                    continue
                ck.corr_checked += len(rf)
                for k in bad:
                    ck.corr_mismatch.append({"file": name, "ref": rf[k]})
    # ---- representation equivalence
    for c, r in zip(reprs, res["repr"]):
        ctx = {"case": c, "result": r}
        if not r["ok"]:
            ck.violation(f"building the optimised int4 tensor raised {r['exn']}: {r['msg'][:140]}", ctx)
            continue
        ck.count("repr_shape", f"{c['out']}x{c['in']}")
        if not r.get("deq_finite", True):
            ck.violation("the optimised int4 tensor dequantizes to NaN/Inf where the standard representation is finite (degenerate group: " + str(c.get("degenerate")) + ")", ctx)
        elif r["deq_ratio"] > 1:
            ck.violation(f"the optimised int4 tensor dequantizes differently from the standard one beyond float16 rounding ({r['deq_ratio']:.3g}x)", ctx)
        if not r["awq_data_is_v2"] or r["awq_dtype"] != "torch.float16":
            ck.violation("the optimised tensor does not hold the v2 packing of the ungrouped codes (or is not float16)", ctx)
        uf = r.get("unflatten", {})
        if "exn" in uf or uf.get("cls") != "AWQBitsTensor" or not uf.get("deq_equal"):
            ck.violation("an optimised int4 tensor rebuilt from its flattened form (__tensor_flatten__ / __tensor_unflatten__) is not the same optimised tensor: " + str(uf)[:160], ctx)
        sv = r.get("saved", {})
        if "exn" in sv or sv.get("payload_dtype") != "torch.uint8" or not sv.get("standard_meta") or not sv.get("scale_equal") or not sv.get("all_plain"):
            ck.violation("serializing an optimised int4 tensor (save_to_state_dict) does not store the standard uint8 packing with the original scales: " + str({k: sv.get(k) for k in ("payload_dtype", "standard_meta", "scale_equal", "exn")}), ctx)
        b = r["back"]
        if "exn" in b or not (b.get("codes_equal") and b.get("scale_equal") and b.get("zeropoint_equal")) or b.get("deq_equal") is not True:
            ck.violation("converting an optimised int4 tensor back to the standard representation (qbits_tensor(), used when serializing or leaving the GPU) does not restore the original codes / zero-points: "
                         "codes come back un-grouped and the zero-point is the scaled float one", ctx)
        ck.case(("repr", c["out"], c["in"], c["std"], c["mean"]), nontrivial=True)
    ck.assumptions += [
        "the awq code is executed on the CPU after removing `assert ... cuda` statements at AST level (no CUDA device exists here); torch's reshape / permute / shifts are device independent; the CUDA gemm kernel itself is never run",
        "representation equivalence tolerance: 2u * (|scale*code| + |scale*zeropoint|) per element (the optimised path rounds both products to float16)",
    ]
    ck.finish("make -C coq ; coqc GenAwq.v TieAwq.v C15.v awq_*.v v2shape_*.v (per run, against /repo's current source)",
              trusted_extra=["translators/gen_awq.py (constants, AST fingerprints incl. external/awq/pack_intweight.py)", "Model/Awq.v is hand-written: tied by fingerprints and by element-wise correspondence with the executed code"],
              extra_cov={"programs": len(layout) + len(reprs)})


if __name__ == "__main__":
    main(sys.argv[1] if len(sys.argv) > 1 else "quick")
