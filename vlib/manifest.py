"""Writes MANIFEST.json from the table below (kept next to the checks so they cannot drift)."""
import json
import os

VERIF = os.path.dirname(os.path.dirname(os.path.abspath(__file__)))

CLAIMED = {
    "C04": {
        "text": "Machine-checked Coq theorems (round trip, density, kernel agreement, routing, dispatch) over a model regenerated from packed.py / unpack.py / unpack.cpp on every run and tied by reflexivity; unbounded in the leading dimension, trailing shape and byte values. A vm_compute correspondence run and an audit of the real kernels (python, hand-compiled C++, extensions disabled) keep the model honest.",
        "note": "Trusted: Coq kernel + vm_compute; translators/py2coq.py, cpp_unpack.py; coq/Lib/Tensor.v as the meaning of torch's uint8 shifts/masks/cat/slices (checked by correspondence only); harness. No axioms (Print Assumptions: closed under the global context).",
        "design": "6/C04",
        "technique": "Coq proof over source-generated model + reflexivity tie + vm_compute correspondence",
    },
}

CLAIMED["C01"] = {
    "text": "Coq theorems over the quantizer generated from symmetric.py / qbytes.py on every run: (a) for any number type, rank and shape every element is quantized and dequantized with the scale of its own axis index; (b) in exact arithmetic clamp-round-divide is a nearest-grid projection that saturates; (c) in IEEE arithmetic (Flocq; float32/float16/bfloat16) qint8 codes are integers of [-128,127] stored without wrap, results are finite and within an explicit rounding slack of a closest grid point, including division overflow; (d) IEEE, float8 (e4m3fn and e5m2, three working formats): the stored code is a point of the storage grid, code and value are finite, the value is within the same slack of a closest point of the scaled grid (the double rounding quotient -> float8 is inside the slack), saturation at +-448 / +-57344 incl. quotient overflow; (e) IEEE, float32 and float16: re-quantizing the dequantized value with the same scale yields the same code, for every finite input and scale. All 2^16 float16 and bfloat16 inputs x 3 qtypes x scales are compared bit for bit between the Flocq model and torch.",
    "note": "Trusted: Coq kernel + vm_compute, Flocq 4.1 as IEEE semantics, Reals axioms (sig_forall_dec, sig_not_dec, functional_extensionality_dep, classic); translators; coq/Lib vocabulary (broadcasting, casts; e4m3fn modelled as Flocq's (4,9) format at half scale bounded by 448) tied to torch by the exhaustive correspondence only. Requantization stability of the float8 types is decided by the audit (exact rational arithmetic) only.",
    "design": "6/C01",
    "technique": "Coq/Flocq proof over source-generated model + reflexivity tie + exhaustive 16-bit vm_compute correspondence",
}

CLAIMED["C14"] = {
    "text": "Coq theorems, for any number type and every shape / argument value, over quantize_weight, quantize_activation, both quantizers, group() and the optimizer wrappers as generated from the source on every run: an accepted call returns exactly the requested qtype, axis and group size with an admissible divisor; each unsupported class of the property is a ValueError; the automatic group size of QModuleMixin.__init__ (translated, while-loop with fuel shown sufficient) is 128/96/64/32, divides the per-output count and exists only above 128. The full small cross product of configurations is run on the implementation and compared with the generated model outcome by outcome.",
    "note": "Trusted: Coq kernel + vm_compute; translators (incl. the snippet extractor for the group-size block); coq/Lib vocabulary; harness. Theorems are axiom-free (closed under the global context). Module construction/forward is exercised on the real QLinear/QConv2d only by the audit.",
    "design": "6/C14",
    "technique": "Coq proof over source-generated decision code + reflexivity tie + exhaustive configuration cross product",
}

CLAIMED["C02"] = {
    "text": "Coq theorems over group/ungroup, AffineQuantizer and the dequantizer as generated from the source on every run: ungroup inverts group for every rank/shape, both axes and every admissible group size (first axis: reshape; last axis: the two 3-d permutations cancel); every element is coded with the scale and zero-point of its own cell; in exact arithmetic, for a range containing zero and the element, zero-point and code lie in [0,2^bits-1] (no int8/uint8 wrap) and the dequantized value is within half a step; the same nearest-point / half-step statement in IEEE arithmetic with an explicit rounding slack. The implementation is audited in exact rational arithmetic group by group over degenerate classes and compared bit for bit with the Flocq evaluation of the generated model.",
    "note": "Trusted: Coq kernel + vm_compute, Flocq, Reals axioms, translators, coq/Lib vocabulary (reshape/permute/broadcast/reduce) tied by correspondence. MaxOptimizer's range is proved (any number type) to be the hull of each cell and zero, cell by cell (max_optimize_cells). IEEE level (Flocq, three working formats): for every finite element within 2^(prec-2) steps, every finite positive scale and integer zero-point of [0,L], the code is an integer of [0,L] stored without uint8/int8 wrap, the value is finite and a closest point of the affine grid up to an explicit slack, hence within half a step + slack inside the grid's span (C02_nearest_float*, C02_half_step_float*). Requantization stability is a theorem for all three working formats (C02_requant_stable_*: s*(c-zp) quantized again gives c, bits <= 4). PARTIAL: the float rounding inside MaxOptimizer (scale and zero-point as floats) is decided by the audit + correspondence only.",
    "design": "6/C02",
    "technique": "Coq proof over source-generated model + reflexivity tie + vm_compute correspondence + exact rational audit",
}
CLAIMED["C03"] = {
    "text": "Coq theorems over AbsmaxOptimizer / SymmetricQuantizer as generated from the source on every run, for any number type, rank and shape: exactly one scale per reduction cell (kept-axis index), computed from the members of that cell only (locality of the scale); every element is quantized and dequantized with the scale of the cell it projects onto and nothing else (locality of the codes); in exact arithmetic no element saturates under its own cell's scale, which equals absmax/qmax. The implementation is audited (saturation, full range, dtype/shape of the scale) and by a metamorphic stream (perturb / rescale / permute the other cells).",
    "note": "Trusted: Coq kernel + vm_compute, Flocq, Reals axioms, translators, coq/Lib vocabulary tied by correspondence. The int2/int4 optimizer has the same cell-level theorem (max_optimize_cells: per cell, from that cell's minimum and maximum extended by zero). IEEE level (Flocq, three working formats, qint8): the scale A/127 of a cell is within one rounding of absmax/qmax and every element of the cell is dequantized within half a step + 254*u*s + C01's slack (no saturation beyond rounding), for a quotient in the normal range and a representable grid (C03_no_saturation_float*). PARTIAL: absmax_scale (calibration), subnormal scales and the float8 / int2 / int4 versions of the float-level statement are covered by the audit and correspondence only.",
    "design": "6/C03",
    "technique": "Coq proof over source-generated model + reflexivity tie + metamorphic differential runs",
}

CLAIMED["C16"] = {
    "text": "Coq/Flocq theorems over the quantizer generated from the source on every run: for float32/float16/bfloat16 and qint8, qfloat8_e4m3fn, qfloat8_e5m2, EVERY finite element with EVERY finite non-negative scale whose grid is representable dequantizes to a finite value — including a zero scale (all-zero row, absmax/qmax underflow), where the float quotient is NaN or infinite and the proof goes through nan_to_num, round, clamp and the exact int8 cast; a zero scale dequantizes to exactly zero; int2/int4: a zero scale with the null zero-point gives an in-range code and exactly zero for every finite element, a positive scale a finite value (C02_nearest_float*). The implementation is audited on tensors assembled from degenerate row/group classes in every mixture (all 5 qtypes), on calibration over zero/constant/tiny/huge batches and on zero-weight layers, with C01/C02's bounds re-checked.",
    "note": "Trusted: Coq kernel + vm_compute, Flocq as IEEE semantics, Reals axioms, translators, vocabulary tied by correspondence. PARTIAL: calibration followed by inference and the zero-layer equality are decided by the audit and the bit-exact correspondence with the generated code, not by a theorem; the int2/int4 theorem for positive scales assumes the element within 2^(prec-2) steps of zero (true of every scale the optimizers produce).",
    "design": "6/C16",
    "technique": "Coq/Flocq proof over source-generated model + reflexivity tie + degenerate-class audit",
}

CLAIMED["C12"] = {
    "text": "Read from calibrate.py on every run: both scale-update call sites pass the configured momentum and the output hook recomputes the raw output (tie lemmas); _updated_scale is translated and proved, in exact arithmetic, to be the EMA step with first-batch initialisation, with the closed form for any history under the no-sentinel hypothesis and the averaging (weights sum to one) law. Every running scale of every module in random calibration histories is reproduced bit for bit by folding the generated function in Flocq arithmetic, and compared with the exact EMA oracle.",
    "note": "Trusted: Coq kernel + vm_compute, Flocq, Reals axioms, gen_calib.py extractor, harness (absmax_scale wrapped to log batch ranges). Known finding F9 (sentinel value 1 re-initialises) is reported as KNOWN-FINDING. The hook control flow (pre-hook, forward, post-hook ordering) is torch's and is exercised, not modelled.",
    "design": "6/C12",
    "technique": "Coq proof + call-site extraction tie + bit-exact Flocq fold of scale histories",
}

CLAIMED["C13"] = {
    "text": "The action lists of Calibration.__enter__/__exit__, the write-sets of forward / qforward / quantize_weight / quantize_activation / quantizers / dequantizers / optimizers / freeze / quantize and the try/finally of disable_extensions are read from the source on every run; Coq theorem: for EVERY program of nested and sequential contexts, forwards and exceptions at any point, the global hook registries and the function-mode stack are restored and exceptions propagate; purity of inference and quantization entry points is the (reflexivity-checked) emptiness of their syntactic write-sets. Random programs are run on the real torch registries and compared with the model; digests of parameters, buffers, scales, qtypes and inputs are monitored.",
    "note": "Trusted: Coq kernel; gen_calib.py extractor; Model/Calib.v as the semantics of `with`, hook handles and the mode stack (tied by program runs). PARTIAL: aliasing inside torch kernels (an op mutating its input's storage) is covered by digest monitoring only. Theorems are axiom-free.",
    "design": "6/C13",
    "technique": "Coq proof over extracted event lists + reflexivity tie + program runs on real registries",
}

CLAIMED["C05"] = {
    "text": "Coq theorems over a hand-written model of the dispatch (Model/QOps.v): every registered implementation of the three tables has a class (coverage, re-checked against the tables read from the decorators on every run); for ANY parametric data movement g and any number type, g applied to the dequantized tensor equals dequantizing the re-wrapped moved payload, and reshape / permute / slicing / select / unsqueeze / expand are such movements (gathers); movements compose, so the statement holds for every PROGRAM of data-movement ops of any length (C05_program_exact), and for cat of payloads sharing their scale. Tie: tables and a fingerprint of the AST of every implementation and dispatch entry point. Random op programs (depth up to 8) run on the real tensors; after every step the result is compared with torch's op on the dequantized operands, exactly or with the per-class bound, and raising is compared with the float twin program.",
    "note": "Trusted: Coq kernel; gen_ops.py; the hand-written class table (an implementation may change behaviour only by changing its AST, which breaks the fingerprint tie); torch as the oracle for the op on dequantized operands. Rescale (mul / div by a scalar) and sign (neg, relu) classes are proved equal to the float operation in exact arithmetic (relu for a non-negative scale; refuted for a negative one = F25). The re-quantizing class (softmax with scale 1/127, where with the input scale) is proved in exact arithmetic to be within half a step of the float result when it fits the output grid, where() keeps the elements of the quantized input exactly (also at IEEE level for float32/float16: the float product s*k re-quantizes to k); saturation of where() beyond the grid is the refuted form = F22. PARTIAL: float rounding of the rescale / requant classes is decided by the audit's per-class bounds; contractions are C07's. Known findings F5 (neg of code -128) and F22 (where saturating) are reported as KNOWN-FINDING.",
    "design": "6/C05",
    "technique": "Coq proof (movement algebra, table coverage) + AST-fingerprint tie + differential op-program runs",
}
CLAIMED["C06"] = {
    "text": "Coq: the invariant between reported size / declared axis and the held payload / scale, preserved by the re-wrap every move-class implementation uses (payload's own size), refuted for the stale-size re-wrap; kept by the same-layout re-wraps (rescale / sign / copy classes) and by the 2-D transpose of a per-axis tensor, hence along every program of such steps (C06_invariant_along_programs); tie: fingerprints of all op implementations, constructors and dispatch entry points. On the same random op programs as C05, every quantized value (operands from quantization, every intermediate result, dtype / device moves, clones) is checked: shape / dtype / device equal those of its dequantized value, one code per element, storage dtype of the qtype, scale shape broadcasting along the declared axis, flattened metadata consistent, codes untouched by moves and copies, a dtype move changing only the scale's dtype.",
    "note": "Trusted: Coq kernel; gen_ops.py; harness. The model covers the per-tensor move-class re-wrap; per-axis transposition, packed tensors and deserialization are decided by the audit (and C10).",
    "design": "6/C06",
    "technique": "Coq invariant proof + AST-fingerprint tie + metadata audit on op programs",
}

CLAIMED["C07"] = {
    "text": "Coq theorems: in exact arithmetic, for any contraction length, the quantized route (matmul of codes times the product of scales) and the float-activation route equal the product of the DEQUANTIZED operands plus bias; the int32 accumulator of the integer GEMM does not wrap for int8 codes and K < 2^17 and denotes the same number as a float accumulation; the CPU/CUDA/MPS routing decisions and the aten.mm integer condition are read from the source on every run and proved to select each kernel only for the operand dtypes (and size classes) it accepts. Every case of a large grid (rows, features incl. non-multiples of 4/8/16/32, batch ranks, dtypes, activation and weight qtypes, bias) runs in a sacrificial subprocess and is compared with the float64 product of the dequantized operands under an analytic accumulation bound; all routes are called directly on the same operands.",
    "note": "Trusted: Coq kernel, Reals axioms; gen_mm.py; torch.matmul/_int_mm/_weight_int8pack_mm MODELLED as accumulation trees over the K products of the contraction; for ANY such tree (any order, with or without FMA, any binary format) the IEEE-level theorem C07_accumulation_error (Flocq) bounds the error by ((1+u)^h - 1)*sum|a_i b_i| + n(1+u)^h*eta, of which the audit's tolerance is the first-order instance; that torch's kernels are such trees is assumed. Known findings: F14 (int8pack segfault for in_features%16!=0), F23 (float16 scale product underflow), F24 (_int_mm with in_features=1). CUDA/MPS routes never executed.",
    "design": "6/C07",
    "technique": "Coq proof (exact arithmetic, routing) + decision extraction tie + crash-isolated differential runs",
}

CLAIMED["C08"] = {
    "text": "Coq theorems over a tree model of quantize() (Model/Module.v), for EVERY module tree, nesting depth, filter and configuration: the module at any non-root path of the quantized tree is the image of the module at the same path of the original, the image keeps identity and children names and changes kind exactly when selected and eligible (Linear, Conv2d; LayerNorm only with quantized activations), named_modules() lists the same names in the same order. Tie: the registry read from the @register_qmodule decorators, the arguments each qcreate mirrors, the loop of quantize() and quantize_module(), and AST fingerprints of 20 module methods, re-read on every run. Random trees (containers, 12 layer kinds, Conv2d / LayerNorm hyper-parameter space, filters, shared instances) are quantized for real: structure is compared with the Coq model's evaluation, identity field by field, and every replaced leaf is run against its float twin on float and pre-quantized inputs.",
    "note": "Trusted: Coq kernel + vm_compute; gen_mod.py extractor; the abstraction 'identity' (hyper-parameters, parameter bits, dtype, device) is checked by the audit, not modelled; the twin equality is decided by the audit under C07's accumulation bound (the forward of a module is torch's convolution / layer_norm, MODELLED only through its float twin). Theorems are axiom-free. Known findings F17 (eligible root), F14/F23 (shared with C07), F28 (parameterless LayerNorm in half precision before calibration).",
    "design": "6/C08",
    "technique": "Coq proof over tree model + extracted-facts tie + vm_compute correspondence on random trees + float-twin audit",
}
CLAIMED["C09"] = {
    "text": "Coq theorems: for any weight state (float or frozen) and any deterministic quantization function, freeze preserves the weights the forward pass uses, is idempotent, and stays so after any number of further freezes; along ANY history of forwards / freezes / moves / copies / reloads the output class only depends on the calibration epoch and frozen is absorbing; the packed payload built on construction takes exactly ceil(rows*bits/8)*(numel/rows) bytes for every shape (over the pack code regenerated from the source). Tie: the qweight property (axis 0, module group size and optimizer, frozen weight returned as is) and the freeze body are read from the source on every run. Random life-cycle histories on runnable models compare outputs bit for bit around every step, hash every tensor before / after freeze and deepcopy, and measure payload / scale / zero-point storage of every frozen weight.",
    "note": "Trusted: Coq kernel + vm_compute; gen_mod.py / gen_c04.py; determinism of quantize_weight (C13's purity) is a hypothesis of the life-cycle theorems, exercised by the audit. Only the cpu device exists here: cross-device moves are not executed. Theorems are axiom-free.",
    "design": "6/C09",
    "technique": "Coq proof over life-cycle model + extracted-facts tie + bit-exact history runs",
}

CLAIMED["C10"] = {
    "text": "Coq theorems: (a) a printer/parser theorem for the meta strings - for EVERY integer, optional integer, list and tuple of integers of any length the modelled fragment of ast.literal_eval reads back what str() prints; (b) for QBytesTensor, QBitsTensor (with its nested PackedTensor) and PackedTensor, flattening under a prefix into ANY state_dict whose other keys do not carry that prefix and running the loader rebuilds exactly the same tensor and removes exactly its keys. The flatteners (__tensor_flatten__) and loaders (load_from_state_dict + __tensor_unflatten__) are TRANSLATED from the source on every run and tied by reflexivity; the module-level save/load, the recursive flattener, safe_save/safe_load and requantize are tied by AST fingerprint. Every meta string the implementation writes is checked against the str()/literal_eval models inside Coq and every frozen weight of every saved model is run through the generated loaders by vm_compute. Audit: typed state_dict values, three serializers, three kinds of target, second cycle, bit equality of every tensor and of the outputs.",
    "note": "Trusted: Coq kernel + vm_compute; gen_ser.py; Model/Serial.v's pop/collect as the meaning of dict.pop and the startswith/replace comprehension; torch.save/safetensors as containers. Tensor CONTENTS are identified, not modelled (bit equality is the audit's). Theorems are axiom-free. Known findings F11 (requantize with quantized LayerNorm), F29 (unfrozen int2/int4 into default target loses the group size), F28 (parameterless LayerNorm in half precision).",
    "design": "6/C10",
    "technique": "Coq proof (printer/parser and flatten/unflatten round trips) over source-translated code + reflexivity tie + vm_compute correspondence + bit-exact reload audit",
}

CLAIMED["C11"] = {
    "text": "Coq theorems over a ring-generic model of the explicit linear backward (Model/Grad.v), instantiated on the reals: for EVERY number of rows (the product of any leading shape, i.e. any input rank), M, K, operands, bias and upstream gradient, the three formulas of QTensorLinear.backward are exactly the gradient of the affine forward in the input, the weight and the bias (the vector pairing with every perturbation like the change of <G, output>), and that vector is unique; life-cycle theorem: an unfrozen module quantizes the CURRENT float weight at every forward, a frozen one ignores updates. Tie: the three backward expressions with guards and return order, the return tuples of the four quantizer / dequantizer backwards (incoming gradient, None elsewhere) and AST fingerprints of the surrounding forwards, re-read on every run. Correspondence: QTensorLinear run on integer-valued operands (ranks 2..4, non-contiguous gradients) equals the Z instance of the model exactly. Audit: QLinear / QConv2d against float twins as autograd leaves, frozen / unfrozen, weight updates between forwards.",
    "note": "Trusted: Coq kernel + vm_compute; Reals axioms (sig_forall_dec, functional_extensionality_dep) for the real instance - the generic proofs are axiom-free; gen_grad.py; torch autograd as the oracle for the float twin and as the engine that composes the per-node backwards (the chain rule itself is torch's, not modelled); Conv2d backward is torch's convolution_backward on dequantized operands (exercised, not modelled).",
    "design": "6/C11",
    "technique": "Coq proof (adjoint characterisation of the linear backward) + extracted-facts tie + exact integer correspondence + float-twin gradient audit",
}

CLAIMED["C15"] = {
    "text": "Coq theorems over a model of the AWQ layouts (Model/Awq.v: v1 with / without column order, v2, and the reference packer of external/awq): nibble packing into signed words is invertible for ANY word size and content (general arithmetic proof); every other step is data movement, proved to commute with any relabelling of elements, so a layout is determined by what it does to the tensor of positions; for every admissible shape of a stated bound (v2: rows 4..16, columns 64..192; v1: rows 1..8, columns 8..128) and EVERY 4-bit content unpack inverts pack and v2 is bit-identical to the reference packer; a generic theorem turns the per-shape position computation into the all-contents statement, which the thorough tier instantiates for larger shapes inside Coq. Tie: the column-order constants (as values), interleave / stride constants and AST fingerprints of all transcribed functions, re-read on every run; correspondence: the real code, executed on the CPU with its device assertions removed at AST level, is compared element by element with the model on random / position / extreme matrices. Audit: optimised vs standard dequantization on float16 group-128 weights and the back conversion.",
    "note": "Trusted: Coq kernel + vm_compute; gen_awq.py; the AST-level removal of `assert ... cuda` (4 statements) in a private copy of the awq modules - nothing else is altered; torch CPU reshape / permute / shift semantics standing for the CUDA ones; the CUDA gemm kernel is never executed. The bijectivity theorems are per shape up to the stated bound (the property's own quantifier), not for unbounded shapes. Theorems are axiom-free except the real-number identity. Known finding F16 (back conversion).",
    "design": "6/C15",
    "technique": "Coq proof (nibble arithmetic + movement parametricity + per-shape position permutation by vm_compute) + constants/fingerprint tie + element-wise correspondence on CPU-executed code",
}

NOT_YET = {}


def main():
    props = [json.loads(l) for l in open(os.path.join(VERIF, "properties.jsonl"))]
    checks, na = [], []
    for p in props:
        pid = p["id"]
        if pid in CLAIMED:
            c = CLAIMED[pid]
            checks.append(
                {
                    "property_id": pid,
                    "quick_cmd": f"./check {pid} quick",
                    "thorough_cmd": f"./check {pid} thorough",
                    "evidence_file": f"evidence/{pid}.json",
                    "replay_cmd_template": f"./check {pid} --replay {{path}}",
                    "engine": "coq-proof",
                    "level_claimed": {"category": "proof", "text": c["text"], "design_ref": c["design"]},
                    "level_note": c["note"],
                    "technique": c["technique"],
                }
            )
        else:
            na.append({"property_id": pid, "reason": NOT_YET.get(pid, "check not built yet in this revision of /verif (work in progress; see DESIGN.md section 9) — no claim is made")})
    m = {
        "version": 1,
        "setup_cmd": "./setup.sh",
        "hooks": {
            "guard": "HUGGINGFACE_QUANTO_VERIF",
            "enable": "no source hooks are needed: checks import /repo's working tree directly (PYTHONPATH=/repo); the variable is exported for uniformity only",
            "baseline_off_cmd": "cd /repo && /venv/bin/python -m pytest -ra -q -p no:cacheprovider --timeout=900 --continue-on-collection-errors",
            "source_commits": [],
            "add_only": True,
        },
        "engines": [
            {
                "name": "coq-proof",
                "path": "coq/",
                "serves_properties": sorted(CLAIMED),
                "kind_free_text": "Coq 8.16.1 theorems over models regenerated from the Python/C++ source by translators/, tied by reflexivity, validated by vm_compute correspondence against the implementation",
            }
        ],
        "checks": checks,
        "not_applicable": na,
        "notes": "Every check: (A) regenerate model from /repo, compile Tie + Props theorems; (B) correspondence by vm_compute; (C) audit of the property on the implementation. See DESIGN.md.",
    }
    with open(os.path.join(VERIF, "MANIFEST.json"), "w") as f:
        json.dump(m, f, indent=1)


if __name__ == "__main__":
    main()
