"""Writes MANIFEST.json from the table below (kept next to the checks so they cannot drift)."""
import json
import os

VERIF = os.path.dirname(os.path.dirname(os.path.abspath(__file__)))

CLAIMED = {
    "C04": {
        "text": "Machine-checked Coq theorems (round trip, density, kernel agreement, routing, dispatch) over a model regenerated from packed.py / unpack.py / unpack.cpp on every run and tied by reflexivity; unbounded in the leading dimension, trailing shape and byte values. A vm_compute correspondence run and an audit of the real kernels (python, hand-compiled C++, extensions disabled) keep the model honest.",
        "note": "Trusted: Coq kernel + vm_compute; translators/py2coq.py, cpp_unpack.py; coq/Lib/Tensor.v as the meaning of torch's uint8 shifts/masks/cat/slices (checked by correspondence only); harness. No axioms (Print Assumptions: closed under the global context).",
        "design": "6/C04",
        "technique": "Coq proof over source-generated model + reflexivity tie + vm_compute correspondence",
    },
}

NOT_YET = {}


def main():
    props = [json.loads(l) for l in open(os.path.join(VERIF, "properties.jsonl"))]
    checks, na = [], []
    for p in props:
        pid = p["id"]
        if pid in CLAIMED:
            c = CLAIMED[pid]
            checks.append(
                {
                    "property_id": pid,
                    "quick_cmd": f"./check {pid} quick",
                    "thorough_cmd": f"./check {pid} thorough",
                    "evidence_file": f"evidence/{pid}.json",
                    "replay_cmd_template": f"./check {pid} --replay {{path}}",
                    "engine": "coq-proof",
                    "level_claimed": {"category": "proof", "text": c["text"], "design_ref": c["design"]},
                    "level_note": c["note"],
                    "technique": c["technique"],
                }
            )
        else:
            na.append({"property_id": pid, "reason": NOT_YET.get(pid, "check not built yet in this revision of /verif (work in progress; see DESIGN.md section 9) — no claim is made")})
    m = {
        "version": 1,
        "setup_cmd": "./setup.sh",
        "hooks": {
            "guard": "HUGGINGFACE_QUANTO_VERIF",
            "enable": "no source hooks are needed: checks import /repo's working tree directly (PYTHONPATH=/repo); the variable is exported for uniformity only",
            "baseline_off_cmd": "cd /repo && /venv/bin/python -m pytest -ra -q -p no:cacheprovider --timeout=900 --continue-on-collection-errors",
            "source_commits": [],
            "add_only": True,
        },
        "engines": [
            {
                "name": "coq-proof",
                "path": "coq/",
                "serves_properties": sorted(CLAIMED),
                "kind_free_text": "Coq 8.16.1 theorems over models regenerated from the Python/C++ source by translators/, tied by reflexivity, validated by vm_compute correspondence against the implementation",
            }
        ],
        "checks": checks,
        "not_applicable": na,
        "notes": "Every check: (A) regenerate model from /repo, compile Tie + Props theorems; (B) correspondence by vm_compute; (C) audit of the property on the implementation. See DESIGN.md.",
    }
    with open(os.path.join(VERIF, "MANIFEST.json"), "w") as f:
        json.dump(m, f, indent=1)


if __name__ == "__main__":
    main()
