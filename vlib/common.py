"""Shared machinery for every ./check <Cxx> <tier> run: paths, seeded PRNG, Coq runner (stage A and
the vm_compute correspondence evaluations), crash-isolated implementation workers, the
violation / known-finding protocol and the evidence writer."""
import hashlib
import json
import os
import random
import re
import shutil
import subprocess
import sys
import time

VERIF = os.path.dirname(os.path.dirname(os.path.abspath(__file__)))
REPO = os.environ.get("VERIF_REPO", "/repo")
PY = "/venv/bin/python"
COQ = os.path.join(VERIF, "coq")
BUILD = os.path.join(VERIF, "build")
GUARD = "HUGGINGFACE_QUANTO_VERIF"

TRUSTED_BASE_COMMON = [
    "Coq 8.16.1 kernel + vm_compute (no native_compute, no extraction)",
    "translators/*.py (fail-closed Python-ast / C++ pattern readers) and the vocabulary coq/Lib/*.v that fixes what torch operations mean",
    "correspondence harness vlib/*.py; torch itself as executor of the implementation",
]


def child_env():
    env = dict(os.environ)
    env["PYTHONPATH"] = REPO
    env["PYTHONHASHSEED"] = "0"
    env[GUARD] = "1"
    env["OMP_NUM_THREADS"] = "1"
    env["MKL_NUM_THREADS"] = "1"
    env.pop("PYTHONSTARTUP", None)
    return env


def sh(cmd, timeout, cwd=None, inp=None, env=None):
    """run, never raise: returns (rc, stdout, stderr); rc=-9 on timeout"""
    try:
        p = subprocess.run(
            cmd, cwd=cwd, input=inp, capture_output=True, text=True, timeout=timeout, env=env or child_env()
        )
        return p.returncode, p.stdout, p.stderr
    except subprocess.TimeoutExpired as ex:
        return -9, (ex.stdout or b"").decode(errors="replace") if isinstance(ex.stdout, bytes) else (ex.stdout or ""), "TIMEOUT"


class Check:
    def __init__(self, pid, tier, level="proof"):
        self.pid = pid
        self.tier = tier
        self.level = level
        self.seed = int(os.environ.get("VERIF_SEED", "20240917"))
        self.rng = random.Random(self.seed * 1000003 + sum(map(ord, pid)))
        self.t0 = time.time()
        self.dyn = os.path.join(BUILD, pid, "dyn")
        self.work = os.path.join(BUILD, pid, "work")
        for d in (self.dyn, self.work):
            shutil.rmtree(d, ignore_errors=True)
            os.makedirs(d, exist_ok=True)
        os.makedirs(os.path.join(VERIF, "evidence"), exist_ok=True)
        os.makedirs(os.path.join(VERIF, "replays"), exist_ok=True)
        for f in os.listdir(os.path.join(VERIF, "replays")):
            if f.startswith(pid + "-"):
                os.remove(os.path.join(VERIF, "replays", f))
        self.vgroups = {}
        self.obligations = []  # (name, ok, detail)
        self.axioms = {}  # theorem -> list of axioms
        self.violations = []  # dict(kind, what, replay)
        self.known_hits = []
        self.coverage = {}
        self.samples = []
        self.evaluations = 0
        self.nontrivial = set()
        self.assumptions = []
        self.notes = []
        self.corr_checked = 0
        self.corr_mismatch = []
        self.histo = {}
        self.known = load_known(pid)

    # ------------------------------------------------------------------ stage A
    def ensure_static_build(self):
        """the static part (Lib/Model/Proofs) is built by setup_cmd; rebuild if missing/stale"""
        rc, out, err = sh(["make", "-j16"], 1500, cwd=COQ)
        if rc != 0:
            raise SystemExit(f"static Coq build failed:\n{out[-2000:]}\n{err[-2000:]}")

    def coqc(self, fname, timeout=600):
        rc, out, err = sh(["coqc", "-Q", COQ, "QV", "-Q", self.dyn, "QD", fname], timeout, cwd=self.dyn)
        return rc == 0, out, err

    def stage_a(self, gen_errors, gen_files, tie_file, props_file, extra_dyn=(), tie_text=None, more_ties=()):
        """compile Gen*, the tie lemmas (one by one, in parallel, so that a failure names the lemma),
        then Tie + Props; record one obligation per tie lemma and per theorem.
        tie_text: content of the tie file when it is assembled by the check (else coq/Tie/<tie_file>)"""
        from concurrent.futures import ThreadPoolExecutor

        # glue fingerprints: functions / module skeletons outside every translator and extractor (tools_tie_coverage.py)
        sys.path.insert(0, os.path.join(VERIF, "translators"))
        import gen_glue

        if self.pid in gen_glue.TARGETS:
            gen_errors = list(gen_errors) + gen_glue.generate(REPO, os.path.join(self.dyn, "GenGlue.v"), self.pid)
            gen_files = list(gen_files) + ["GenGlue.v"]
            more_ties = list(more_ties) + [("TieGlue.v", gen_glue.tie_text(self.pid, REPO))]
        for e in gen_errors:
            self.obligations.append((f"translate:{e.split(':')[0]}", False, e))
        ok_all = True
        for g in gen_files:
            ok, out, err = self.coqc(g)
            if not ok:
                ok_all = False
                self.obligations.append((f"compile:{g}", False, err.strip()[-600:]))
        tie_src = tie_text if tie_text is not None else open(os.path.join(COQ, "Tie", tie_file)).read()
        with open(os.path.join(self.dyn, tie_file), "w") as f:
            f.write(tie_src)
        header, lems = split_lemmas(tie_src)
        lemmas = [(header, n, t) for n, t in lems]
        for fname, text in more_ties:
            with open(os.path.join(self.dyn, fname), "w") as f:
                f.write(text)
            h2, l2 = split_lemmas(text)
            lemmas += [(h2, n, t) for n, t in l2]

        def probe(item):
            hdr, name, text = item
            pf = os.path.join(self.dyn, f"probe_{name}.v")
            with open(pf, "w") as f:
                f.write(hdr + text)
            ok, out, err = self.coqc(os.path.basename(pf), timeout=300)
            for ext in (".v", ".vo", ".vok", ".vos", ".glob"):
                try:
                    os.remove(pf[:-2] + ext)
                except OSError:
                    pass
            return name, ok, err

        tie_ok = {}
        if ok_all:
            with ThreadPoolExecutor(max_workers=12) as ex:
                for name, ok, err in ex.map(probe, lemmas):
                    tie_ok[name] = ok
                    self.obligations.append((name, ok, "" if ok else err.strip()[-600:]))
        else:
            for _, name, _ in lemmas:
                tie_ok[name] = False
                self.obligations.append((name, False, "generated file does not compile"))
        for x in extra_dyn:
            shutil.copy(os.path.join(COQ, x), self.dyn)
        shutil.copy(os.path.join(COQ, "Props", props_file), self.dyn)
        thms = re.findall(r"^(?:Theorem|Example|Corollary)\s+(\w+)", open(os.path.join(COQ, "Props", props_file)).read(), flags=re.M)
        if all(tie_ok.values()) and ok_all:
            ok, out, err = self.coqc(tie_file)
            for fname, _ in more_ties:
                ok = ok and self.coqc(fname)[0]
            if ok:
                for x in extra_dyn:
                    ok = ok and self.coqc(os.path.basename(x))[0]
            if ok:
                ok, out, err = self.coqc(props_file, timeout=1200)
                if ok:
                    self.parse_assumptions(out, thms)
                    for t in thms:
                        self.obligations.append((t, True, ""))
                else:
                    m = re.search(r'File "[^"]*", line (\d+)', err)
                    bad = theorem_at_line(os.path.join(COQ, "Props", props_file), int(m.group(1))) if m else None
                    seen_bad = False
                    for t in thms:
                        if bad is None:
                            self.obligations.append((t, False, err.strip()[-600:]))
                        elif t == bad:
                            seen_bad = True
                            self.obligations.append((t, False, err.strip()[-600:]))
                        elif not seen_bad:
                            self.obligations.append((t, True, ""))
                        else:
                            self.obligations.append((t, None, "not reached"))
            else:
                for t in thms:
                    self.obligations.append((t, False, "tie file did not compile"))
        else:
            for t in thms:
                self.obligations.append((t, False, "depends on a broken tie / generated definition"))
        return [o for o in self.obligations if o[1] is not True]

    def parse_assumptions(self, out, thms):
        # coqc prints, per Print Assumptions, either "Closed under the global context" or "Axioms:\n name : type ..."
        blocks = re.split(r"(?=Closed under the global context|Axioms:)", out)
        blocks = [b for b in blocks if b.startswith("Closed") or b.startswith("Axioms:")]
        for i, b in enumerate(blocks):
            if b.startswith("Closed"):
                ax = []
            else:
                ax = [a for a in re.findall(r"^([A-Za-z_][\w.']*)\s*:", b, flags=re.M) if a != "Axioms"]
            self.axioms[f"#{i}"] = sorted(set(ax))

    # ------------------------------------------------------------------ correspondence
    def coq_eval(self, name, body, imports, timeout=900):
        """write <name>.v = imports + body, compile, return stdout (the vm_compute results)"""
        path = os.path.join(self.dyn, name + ".v")
        with open(path, "w") as f:
            f.write(imports + "\n" + body)
        ok, out, err = self.coqc(name + ".v", timeout=timeout)
        return ok, out, err

    # ------------------------------------------------------------------ implementation workers
    def impl(self, worker, payload, timeout=900):
        """run vlib/workers/<worker>.py in a fresh interpreter (crash isolated)"""
        with open(os.path.join(self.work, worker + "_payload.json"), "w") as f:
            json.dump(payload, f)
        rc, out, err = sh([PY, os.path.join(VERIF, "vlib", "workers", worker + ".py")], timeout, cwd=self.work, inp=json.dumps(payload))
        lines = [l for l in out.splitlines() if l.startswith("RESULT ")]
        if rc != 0 or not lines:
            return {"crashed": True, "rc": rc, "stderr": err[-3000:], "stdout": out[-1000:]}
        return json.loads(lines[-1][7:])

    # ------------------------------------------------------------------ reporting
    def count(self, key, sub=None):
        k = key if sub is None else f"{key}:{sub}"
        self.histo[k] = self.histo.get(k, 0) + 1

    def case(self, sig, nontrivial=True, sample=None):
        self.evaluations += 1
        if nontrivial:
            self.nontrivial.add(sig)
        if sample is not None and len(self.samples) < 6:
            self.samples.append(sample)

    def violation(self, what, replay_obj, failing_input_found=True):
        """record a violation unless it matches a known finding"""
        for kf in self.known:
            if kf.get("status") == "known" and kf["match"] in what:
                if kf["id"] not in [k["id"] for k in self.known_hits]:
                    self.known_hits.append(kf)
                return False
        # one report per kind of failure (message with numbers abstracted); the first input is kept
        group = re.sub(r"\d+", "#", re.sub(r"\[[^\]]*\]|\([^)]*\)", "[..]", what))[:160]
        self.vgroups[group] = self.vgroups.get(group, 0) + 1
        if self.vgroups[group] > 1 or len(self.vgroups) > 8:
            return True
        h = hashlib.sha1(json.dumps(replay_obj, sort_keys=True, default=str).encode()).hexdigest()[:10]
        path = os.path.join(VERIF, "replays", f"{self.pid}-{h}.json")
        with open(path, "w") as f:
            json.dump({"property": self.pid, "what": what, "tier": self.tier, "seed": self.seed,
                       "how_to_replay": f"./check {self.pid} --replay <this file>  (re-runs the {self.tier} tier with VERIF_SEED={self.seed}; every input is derived from that seed)",
                       "replay": replay_obj}, f, indent=1, default=str)
        self.violations.append({"what": what, "replay": os.path.relpath(path, VERIF), "found": failing_input_found, "group": group})
        return True

    def finish(self, checker_cmd, trusted_extra=(), extra_cov=None):
        broken = [o for o in self.obligations if o[1] is False]
        if broken and not any(v["found"] for v in self.violations):
            # proof side broken, no failing input found: still a violation (the property is no longer shown)
            self.violation(
                "proof/tie obligation no longer checks: " + ", ".join(o[0] for o in broken),
                {"broken_obligations": [{"name": o[0], "detail": o[2]} for o in broken]},
                failing_input_found=False,
            )
        if self.corr_mismatch and not any(v["found"] for v in self.violations):
            self.violation(
                "model/implementation correspondence differs: " + "; ".join(str(m)[:200] for m in self.corr_mismatch[:3]),
                {"correspondence_mismatches": self.corr_mismatch[:10]},
                failing_input_found=False,
            )
        obligations = [o for o in self.obligations if o[1] is not None]
        axioms = sorted({a for v in self.axioms.values() for a in v})
        cov = {
            "obligations": len(obligations),
            "discharged": sum(1 for o in obligations if o[1]),
            "obligation_names": [o[0] + ("" if o[1] else " [BROKEN]") for o in obligations],
            "checker_cmd": checker_cmd,
            "trusted_base": TRUSTED_BASE_COMMON + list(trusted_extra) + ["axioms reported by Print Assumptions: " + (", ".join(axioms) if axioms else "none (closed under the global context)")],
            "evaluations": self.evaluations,
            "distinct_nontrivial": len(self.nontrivial),
            "rule": self.coverage.get("rule", ""),
            "samples": self.samples or [{"note": "no sampled cases in this run"}],
            "correspondence_cases_compared": self.corr_checked,
            "correspondence_mismatches": len(self.corr_mismatch),
            "input_distribution": dict(sorted(self.histo.items())),
            "known_findings_hit": [k["id"] for k in self.known_hits],
            "notes": self.notes,
        }
        cov.update(extra_cov or {})
        ev = {
            "property_id": self.pid,
            "tier": self.tier,
            "seed": self.seed,
            "level": self.level,
            "coverage": cov,
            "assumptions": self.assumptions,
            "wall_s": round(time.time() - self.t0, 2),
            "violations": len(self.violations),
        }
        with open(os.path.join(VERIF, "evidence", f"{self.pid}.json"), "w") as f:
            json.dump(ev, f, indent=1, default=str)
        for k in self.known_hits:
            print(f"KNOWN-FINDING: property={self.pid} {k['what']}")
        for v in self.violations:
            tail = "" if v["found"] else " no-failing-input-found"
            print(f"VIOLATION property={self.pid} replay={v['replay']}{tail}")
            print(f"  detail: {v['what'][:400]}  [{self.vgroups.get(v.get('group'), 1)} case(s) of this kind]")
        print(
            f"[{self.pid} {self.tier}] obligations {cov['discharged']}/{cov['obligations']}, "
            f"correspondence {self.corr_checked} cases / {len(self.corr_mismatch)} mismatches, "
            f"audit {self.evaluations} cases ({len(self.nontrivial)} distinct non-trivial), "
            f"{len(self.violations)} violation(s), {ev['wall_s']}s"
        )
        sys.exit(1 if self.violations else 0)


def split_lemmas(src):
    """header (everything before the first Lemma) and [(name, text)]"""
    parts = re.split(r"(?=^Lemma\s)", src, flags=re.M)
    header = parts[0]
    out = []
    for p in parts[1:]:
        m = re.match(r"Lemma\s+(\w+)", p)
        out.append((m.group(1), p))
    return header, out


def theorem_at_line(path, line):
    name = None
    for i, l in enumerate(open(path), 1):
        m = re.match(r"(?:Theorem|Example|Corollary)\s+(\w+)", l)
        if m:
            name = m.group(1)
        if i >= line:
            return name
    return name


def load_known(pid):
    path = os.path.join(VERIF, "known_findings.json")
    if not os.path.exists(path):
        return []
    data = json.load(open(path))
    return [k for k in data.get("findings", []) if k.get("property") == pid]


# ---------------------------------------------------------------------- Coq literal printers
def zlist(xs):
    return "[" + "; ".join(str(int(x)) if x >= 0 else f"({int(x)})" for x in xs) + "]"


def coq_tensor(shape, data):
    return f"(T {zlist(shape)} {zlist(data)})"


def parse_nat_list(out):
    """parse '= [1; 2]' / '= []' from a vm_compute result of type list nat / list Z"""
    m = re.search(r"=\s*\[(.*?)\]\s*:\s*list", out, flags=re.S)
    if not m:
        return None
    body = m.group(1).strip()
    if not body:
        return []
    return [int(x.strip().replace("%nat", "").replace("%Z", "").strip("()")) for x in body.split(";")]
